"""C03 — Pauli operator arithmetic is faithful to matrix arithmetic."""
from __future__ import annotations

import ast
import copy
from fractions import Fraction
from typing import Dict, List, Optional, Tuple

from ..astutil import arg_or_kw, body_walk, const_str, const_value, dotted, kwarg, norm, positional_params, short, walk_local
from ..cfg import cfg_of, branch_raises
from ..common import returned_exprs
from ..flow import Defs, ElementOf, Expander
from ..linform import poly, poly_eq, show, p_atom, p_add, p_mul, p_const, p_inv

EXPLANATION = (
    "Structural necessary conditions, decided from the source of _pauli_operators.py: (D1) the single-qubit product "
    "table OPERATOR_MAP and phase table COEFF_MAP, evaluated from their literals, equal the Pauli algebra the checker "
    "derives itself from the 2x2 matrices, for all six ordered pairs of distinct Paulis; the ord-sum keys are "
    "collision-free; (D2) in a term-by-term product the phase is looked up as <receiver's operator><incoming operator> "
    "(left factor first), equal operators cancel without a phase, the accumulator starts from the receiver's operators "
    "with unit coefficient, iterates the right operand, and both coefficients are multiplied in exactly once; a sum "
    "product distributes over product(self.terms, other.terms) with left*right in that order; (D3) every other "
    "arithmetic dunder of both classes (+, reflected +, -, reflected -, reflected *, /, scalar *), rewritten into "
    "plain arithmetic, evaluates to the right (Laurent-)polynomial in {self, other} on every return path; (D4) both "
    "classes offer the same operator set; ** rejects non-integers and negatives and the square-and-multiply helper, "
    "evaluated in the exponent domain for n = 0..64, yields exactly n factors; (D5) simplify groups terms by their "
    "operator part only, sums all coefficients of a group, keeps the group's operators and drops a group only on an "
    "is-close-to-zero test; (D6) sum equality is order-insensitive, term equality compares coefficient and operators, "
    "no tolerance looser than 1e-8 is spelled; (D7) no arithmetic operation writes through self/other (effect analysis). "
    "(D2p) per-qubit phases read from COEFF_MAP inside a loop are multiplied into the running coefficient, never assigned over it."
    " Round 4: no last-wins mapping built by a constructor from an operand's terms in PauliSum.__add__."
    ' Round 5: (D8) no functools cache keyed by an operator (tolerant ==, rounded hash); arithmetic methods do not branch on the truth value of their operator operand; __hash__ sees the coefficient only through round(...) while __eq__ is tolerant; is_constant looks at the factors only.'
    " Round 6: every term reaches its group before anything is compared with 0 -- no skip or filter on a term's own coefficient (D5); exits are keyed by content so the two views cannot pair different exits."
    ' Round 7: every further exit of PauliTerm.__mul__ written over the operands denotes self * other (D3); star-unpacked groups in simplify (D5).'
)
RULE_TEXT = "instances = 6 ordered operator pairs x {operator, phase}, 3 key-collision checks, multiplication dataflow obligations, (class, dunder, return path) linear forms, 65 exponents, simplify obligations, equality/tolerance sites, purity per (method, parameter)"
ASSUMPTIONS = [
    "declined: that distribution over the Cartesian product, hashing with rounding (HASH_PRECISION) and np.isclose denote matrix equality to 1e-8 in every corner (numeric); n-qubit matrix semantics follow from the single-qubit table because operators on different qubits commute",
    "np.isclose / np.allclose default tolerances are the documented 1e-8 absolute (+1e-5 relative)",
]

MOD = "operators._pauli_operators"
R1 = "C03-D1 pauli-tables"
R2 = "C03-D2 product-order"
R3 = "C03-D3 dunder-linear-forms"
R4 = "C03-D4 operator-set-and-powers"
R5 = "C03-D5 simplify"
R6 = "C03-D6 equality"
R7 = "C03-D7 arithmetic-pure"

DUNDERS = ["__add__", "__radd__", "__sub__", "__rsub__", "__mul__", "__rmul__", "__truediv__", "__pow__"]

# 2x2 Pauli matrices over Gaussian integers (re, im) — the checker's own ground truth
_P = {
    "X": [[(0, 0), (1, 0)], [(1, 0), (0, 0)]],
    "Y": [[(0, 0), (0, -1)], [(0, 1), (0, 0)]],
    "Z": [[(1, 0), (0, 0)], [(0, 0), (-1, 0)]],
}


def _cm(a, b):
    return (a[0] * b[0] - a[1] * b[1], a[0] * b[1] + a[1] * b[0])


def _matmul(A, B):
    return [[tuple(map(sum, zip(*[_cm(A[i][k], B[k][j]) for k in range(2)]))) for j in range(2)] for i in range(2)]


def pauli_product(a: str, b: str) -> Tuple[complex, str]:
    """sigma_a sigma_b = phase * sigma_c for a != b."""
    M = _matmul(_P[a], _P[b])
    for c, C in _P.items():
        for ph in ((1, 0), (-1, 0), (0, 1), (0, -1)):
            if all(M[i][j] == _cm(ph, C[i][j]) for i in range(2) for j in range(2)):
                return complex(*ph), c
    raise AssertionError("not a Pauli")


def _ord_sum(node: ast.AST) -> Optional[int]:
    if isinstance(node, ast.BinOp) and isinstance(node.op, ast.Add):
        l, r = _ord_sum(node.left), _ord_sum(node.right)
        return None if l is None or r is None else l + r
    if isinstance(node, ast.Call) and dotted(node.func) == "ord" and len(node.args) == 1 and const_str(node.args[0]) and len(const_str(node.args[0])) == 1:
        return ord(const_str(node.args[0]))
    if isinstance(node, ast.Constant) and isinstance(node.value, int):
        return node.value
    return None


def check_tables(ctx):
    mod = ctx.repo.module(MOD)
    om, cmap = mod.assigns.get("OPERATOR_MAP"), mod.assigns.get("COEFF_MAP")
    # tables written as comprehensions over literal data are constant-folded to the literal they denote
    from ..astutil import NotLiteral, fold_literal, literal_to_ast

    def as_literal(v):
        if v is None or isinstance(v, ast.Dict):
            return v
        try:
            val = fold_literal(v, {}, dict(mod.assigns))
        except NotLiteral:
            return v
        if isinstance(val, dict):
            lit = literal_to_ast(val)
            for n in ast.walk(lit):
                n.lineno = getattr(v, "lineno", 1)
                n.col_offset = 0
            return lit
        return v

    om, cmap = as_literal(om), as_literal(cmap)
    if not isinstance(om, ast.Dict) or not isinstance(cmap, ast.Dict):
        ctx.undecided(R1, f"{MOD}:tables", "OPERATOR_MAP / COEFF_MAP are not dict literals at module level", f"{mod.relpath}:1")
        return None
    op_table: Dict[int, str] = {}
    for k, v in zip(om.keys, om.values):
        key, val = _ord_sum(k), const_str(v)
        if key is None or val is None:
            ctx.undecided(R1, f"{MOD}:OPERATOR_MAP", f"entry {short(k)}: {short(v)} is not an ord-sum -> letter literal", f"{mod.relpath}:{om.lineno}")
            return None
        if key in op_table:
            ctx.violation(R1, f"{MOD}:OPERATOR_MAP:duplicate:{key}", f"two entries of OPERATOR_MAP share the key {key}: the later one silently wins", f"{mod.relpath}:{om.lineno}")
        op_table[key] = val
    ph_table: Dict[str, complex] = {}
    for k, v in zip(cmap.keys, cmap.values):
        ks = const_str(k)
        try:
            val = complex(const_value(v))
        except (ValueError, TypeError):
            ks = None
        if ks is None:
            ctx.undecided(R1, f"{MOD}:COEFF_MAP", f"entry {short(k)}: {short(v)} is not a string -> number literal", f"{mod.relpath}:{cmap.lineno}")
            return None
        if ks in ph_table:
            ctx.violation(R1, f"{MOD}:COEFF_MAP:duplicate:{ks}", f"two entries of COEFF_MAP share the key {ks!r}", f"{mod.relpath}:{cmap.lineno}")
        ph_table[ks] = val
    letters = "XYZ"
    sums = {}
    for i, a in enumerate(letters):
        for b in letters[i + 1:]:
            s = ord(a) + ord(b)
            sums.setdefault(s, []).append(a + b)
    for s, pairs in sums.items():
        ctx.check(len(pairs) == 1, R1, f"{MOD}:ord-sum:{'/'.join(pairs)}", "ord-sum key identifies the unordered pair uniquely", f"ord-sum {s} is shared by the pairs {pairs}: the commutative lookup is ambiguous", f"{mod.relpath}:{om.lineno}")
    for a in letters:
        for b in letters:
            if a == b:
                continue
            phase, c = pauli_product(a, b)
            got_op = op_table.get(ord(a) + ord(b))
            ctx.check(got_op == c, R1, f"{MOD}:OPERATOR_MAP:{a}{b}", f"{a}*{b} -> {c}", f"OPERATOR_MAP gives {got_op!r} for {a}*{b}; the Pauli algebra gives {c} (sigma_{a} sigma_{b} = {phase} sigma_{c})", f"{mod.relpath}:{om.lineno}")
            got_ph = ph_table.get(a + b)
            ctx.check(got_ph is not None and got_ph == phase, R1, f"{MOD}:COEFF_MAP:{a}{b}", f"phase of {a}*{b} is {phase}", f"COEFF_MAP[{a + b!r}] is {got_ph}; the Pauli algebra gives {phase} (sigma_{a} sigma_{b} = {phase} sigma_{c})", f"{mod.relpath}:{cmap.lineno}")
    extra = sorted(set(ph_table) - {a + b for a in letters for b in letters if a != b})
    for e in extra:
        ctx.violation(R1, f"{MOD}:COEFF_MAP:extra:{e}", f"COEFF_MAP has an entry {e!r} outside the six products of distinct Paulis", f"{mod.relpath}:{cmap.lineno}")
    allowed = mod.assigns.get("ALLOWED_OPERATORS")
    vals = {const_str(e) for e in allowed.elts} if isinstance(allowed, (ast.List, ast.Tuple, ast.Set)) else set()
    ctx.check(vals == {"X", "Y", "Z", "I"}, R1, f"{MOD}:ALLOWED_OPERATORS", "exactly X, Y, Z, I", f"ALLOWED_OPERATORS is {sorted(v for v in vals if v)}: the constructor then accepts letters the tables have no product for (or rejects a Pauli)", f"{mod.relpath}:1")
    return op_table, ph_table


# ----------------------------------------------------------------------------- D2
def check_term_product(ctx):
    repo = ctx.repo
    f = repo.func(f"{MOD}:PauliTerm._multiply_by_operator")
    ctx.analysed(f)
    ps = positional_params(f.node)
    if len(ps) < 3:
        ctx.undecided(R2, f.key, "unexpected signature", f)
        return
    op, idx = ps[1], ps[2]
    d = Defs(f.node)
    # phase lookup: COEFF_MAP[<current operator at index> + op]
    lookups = [n for n in body_walk(f.node) if isinstance(n, ast.Subscript) and dotted(n.value) == "COEFF_MAP"]
    phase_gets = [n for n in body_walk(f.node) if isinstance(n, ast.Call) and dotted(n.func) == "COEFF_MAP.get"]
    cur_forms = {f"self[{idx}]", f"self._ops[{idx}]"}
    ops_alias = [name for name, ds in d.defs.items() if any(isinstance(x, ast.AST) and norm(x) in ("self._ops.copy()", "dict(self._ops)", "{**self._ops}") for x in ds)]
    for a in ops_alias:
        cur_forms.add(f"{a}[{idx}]")
    # the same read spelt with .get (None when the qubit is unused), and a local holding it (read before anything is stored)
    for base in ["self._ops"] + ops_alias:
        cur_forms.add(f"{base}.get({idx})")
    for name, ds in d.defs.items():
        vs = [x for x in ds if isinstance(x, ast.AST)]
        if len(ds) == 1 and len(vs) == 1 and norm(vs[0]) in cur_forms:
            first_store = min((n.lineno for n in body_walk(f.node) if isinstance(n, (ast.Assign, ast.Delete)) and any(isinstance(t, ast.Subscript) and norm(t.value) in ops_alias for t in (n.targets))), default=10**9)
            if vs[0].lineno < first_store:
                cur_forms.add(name)
    ex = Expander(f.node, keep=ops_alias + [c for c in cur_forms if c.isidentifier()])
    if len(lookups) != 1:
        ctx.undecided(R2, f.key + ":phase-lookup", f"expected one COEFF_MAP lookup, found {len(lookups)}", f)
    else:
        key = ex.expand(lookups[0].slice)
        ok = isinstance(key, ast.BinOp) and isinstance(key.op, ast.Add) and norm(key.left) in cur_forms and norm(key.right) == op
        swapped = isinstance(key, ast.BinOp) and isinstance(key.op, ast.Add) and norm(key.right) in cur_forms and norm(key.left) == op
        if ok or swapped:
            ctx.check(ok, R2, f.key + ":phase-lookup", "phase key = receiver's operator + incoming operator (left factor first)", f"phase looked up as {short(key)}: operands swapped, so every product of two different Paulis on one qubit gets the opposite sign", f"{f.module.relpath}:{lookups[0].lineno}")
        else:
            ctx.undecided(R2, f.key + ":phase-lookup", f"cannot recognise the phase key {short(key)} as a concatenation of the receiver's operator at the index and the incoming operator", f"{f.module.relpath}:{lookups[0].lineno}")
    olook = [n for n in body_walk(f.node) if isinstance(n, ast.Subscript) and dotted(n.value) == "OPERATOR_MAP"]
    if len(olook) == 1:
        key = ex.expand(olook[0].slice)
        parts = []
        if isinstance(key, ast.BinOp) and isinstance(key.op, ast.Add):
            for side in (key.left, key.right):
                if isinstance(side, ast.Call) and dotted(side.func) == "ord" and len(side.args) == 1:
                    parts.append(norm(side.args[0]))
        ok = len(parts) == 2 and ((parts[0] in cur_forms and parts[1] == op) or (parts[1] in cur_forms and parts[0] == op))
        same_twice = len(parts) == 2 and parts[0] == parts[1]
        if ok:
            ctx.ok(R2, f.key + ":operator-lookup", "resulting operator looked up from the two operators at this qubit", f"{f.module.relpath}:{olook[0].lineno}")
        elif same_twice:
            ctx.violation(R2, f.key + ":operator-lookup", f"OPERATOR_MAP key {short(key)} uses the same operator twice instead of the receiver's and the incoming one", f"{f.module.relpath}:{olook[0].lineno}")
        else:
            ctx.undecided(R2, f.key + ":operator-lookup", f"cannot recognise the OPERATOR_MAP key {short(key)} as ord(<receiver's operator>) + ord(<incoming operator>)", f"{f.module.relpath}:{olook[0].lineno}")
    else:
        ctx.undecided(R2, f.key + ":operator-lookup", f"expected one OPERATOR_MAP lookup, found {len(olook)}", f)
    # phase is multiplied into the running coefficient, which starts as self.coefficient
    coeff_names = [name for name, ds in d.defs.items() if any(isinstance(x, ast.AST) and norm(x) == "self.coefficient" for x in ds)]
    mult = [n for n in body_walk(f.node) if isinstance(n, ast.AugAssign) and isinstance(n.op, ast.Mult) and isinstance(n.target, ast.Name) and n.target.id in coeff_names and any(x is lookups[0] for x in ast.walk(n.value))] if len(lookups) == 1 else []
    mult += [n for n in body_walk(f.node) if len(lookups) == 1 and isinstance(n, ast.Assign) and isinstance(n.targets[0], ast.Name) and n.targets[0].id in coeff_names and isinstance(n.value, ast.BinOp) and isinstance(n.value.op, ast.Mult) and any(x is lookups[0] for x in ast.walk(n.value)) and n.targets[0].id in {x.id for x in ast.walk(n.value) if isinstance(x, ast.Name)}]
    if len(lookups) != 1:
        ctx.undecided(R2, f.key + ":phase-applied", "no single COEFF_MAP lookup whose result could be followed into the coefficient", f)
    else:
      ctx.check(bool(mult), R2, f.key + ":phase-applied", "running coefficient (initialised from self.coefficient) is multiplied by the phase", "the looked-up phase is not multiplied into the coefficient carried over from self", f)
    # the phase statement and the operator statement sit in the same branch; the equal-operator branch deletes the key, no phase
    cfg = cfg_of(f.node)
    dels = [n for n in body_walk(f.node) if isinstance(n, ast.Delete) and any(norm(t) in {f"{a}[{idx}]" for a in ops_alias} for t in n.targets)]
    pops = [n for n in body_walk(f.node) if isinstance(n, ast.Call) and isinstance(n.func, ast.Attribute) and n.func.attr == "pop" and norm(n.func.value) in ops_alias and n.args and norm(n.args[0]) == idx]
    eq_tests = [n for n in body_walk(f.node) if isinstance(n, ast.If) and isinstance(n.test, ast.Compare) and len(n.test.ops) == 1 and isinstance(n.test.ops[0], ast.Eq) and {norm(n.test.left), norm(n.test.comparators[0])} & cur_forms and op in (norm(n.test.left), norm(n.test.comparators[0]))]
    ok = False
    if eq_tests:
        body_nodes = [x for s in eq_tests[0].body for x in ast.walk(s)]
        coeff_written = any(isinstance(x, (ast.Assign, ast.AugAssign)) and any(isinstance(t, ast.Name) and t.id in coeff_names for t in (x.targets if isinstance(x, ast.Assign) else [x.target])) for x in body_nodes)
        ok = any(x in body_nodes for x in dels + pops) and not any(x in body_nodes for x in lookups + phase_gets) and not coeff_written
    if not eq_tests:
        ctx.undecided(R2, f.key + ":equal-cancel", "cannot find the `if <current operator> == <incoming operator>` branch", f)
    else:
      ctx.check(ok, R2, f.key + ":equal-cancel", "equal operators cancel to the identity without a phase", "the branch for equal operators on one qubit does not simply remove that qubit (sigma^2 = 1, phase 1)", f)
    # result built from the edited copy and the running coefficient; self._ops itself is copied first
    rets = returned_exprs(f.node)
    ok = len(rets) == 1 and isinstance(rets[0], ast.Call) and dotted(rets[0].func) == "PauliTerm" and len(rets[0].args) + len(rets[0].keywords) == 2 and norm(arg_or_kw(rets[0], 0, "operator")) in ops_alias and norm(arg_or_kw(rets[0], 1, "coefficient")) in coeff_names
    ctx.check(ok, R2, f.key + ":result", "PauliTerm(edited copy of the operators, running coefficient)", f"result {short(rets[0]) if rets else '<none>'} is not built from the edited operator copy and the running coefficient", f)

    # ---- PauliTerm.__mul__, term branch
    m = repo.func(f"{MOD}:PauliTerm.__mul__")
    ctx.analysed(m)
    other = positional_params(m.node)[1]
    md = Defs(m.node)
    # per-qubit phases multiply: inside a loop over the qubits of an operand, a phase read from COEFF_MAP must be folded
    # into the running coefficient (`*=` / `x = x * ...`); a plain assignment keeps only the last clash's phase
    for fn_ in repo.module(MOD).functions.values():
        for loop_ in body_walk(fn_.node):
            if not isinstance(loop_, ast.For):
                continue
            for st in ast.walk(loop_):
                if isinstance(st, ast.Assign) and len(st.targets) == 1 and isinstance(st.targets[0], ast.Name) and any(isinstance(x, ast.Subscript) and dotted(x.value) == "COEFF_MAP" for x in ast.walk(st.value)):
                    nm = st.targets[0].id
                    selfref = any(isinstance(x, ast.Name) and x.id == nm for x in ast.walk(st.value))
                    if not selfref:
                        ctx.violation(R2, f"{fn_.key}:phase-accumulated", f"`{short(st)}` inside the loop over an operand's qubits overwrites `{nm}` instead of multiplying into it: with clashes on two or more qubits only the last phase survives (e.g. (X0*X1)*(Y0*Y1) gets i instead of i*i = -1)", f"{fn_.module.relpath}:{st.lineno}")
    loops = [n for n in body_walk(m.node) if isinstance(n, ast.For) and any(isinstance(c, ast.Call) and isinstance(c.func, ast.Attribute) and c.func.attr == "_multiply_by_operator" for c in ast.walk(n))]
    if len(loops) != 1:
        ctx.undecided(R2, m.key + ":loop", f"expected one loop applying _multiply_by_operator, found {len(loops)}", m)
        return
    loop = loops[0]
    over_other = norm(loop.iter) in (other, f"iter({other})", f"{other}.operations", f"{other}._ops.items()")
    ctx.check(over_other, R2, m.key + ":loop", "the receiver's copy absorbs the operators of the right operand one by one", f"the per-qubit loop iterates {short(loop.iter)} instead of the right operand `{other}`: the left and right factors are exchanged, which flips the sign of every anticommuting pair", f"{m.module.relpath}:{loop.lineno}")
    if not over_other:
        return
    calls = [n for n in ast.walk(loop) if isinstance(n, ast.Call) and isinstance(n.func, ast.Attribute) and n.func.attr == "_multiply_by_operator"]
    acc = None
    ok_thread = False
    if len(calls) == 1 and isinstance(calls[0].func.value, ast.Name):
        acc = calls[0].func.value.id
        st = [s for s in ast.walk(loop) if isinstance(s, ast.Assign) and s.value is calls[0] and norm(s.targets[0]) == acc]
        ok_thread = bool(st)
    ctx.check(ok_thread, R2, m.key + ":accumulate", "accumulator = accumulator._multiply_by_operator(op, index) for each operator of the right operand", "the per-qubit product is not threaded through one accumulator (a result is dropped or applied to a stale term)", m)
    if acc is None:
        return
    # loop targets -> argument slots: __iter__ yields (op, index)
    it = repo.func(f"{MOD}:PauliTerm.__iter__")
    ys = [n.value for n in body_walk(it.node) if isinstance(n, ast.Yield) and n.value is not None]
    y_ok = len(ys) == 1 and isinstance(ys[0], ast.Tuple) and len(ys[0].elts) == 2
    if y_ok and norm(loop.iter) == other and isinstance(loop.target, ast.Tuple) and len(loop.target.elts) == 2:
        # which yielded slot is the operator? the one that is a subscript/`.get` of self at the loop variable
        yl = [norm(e) for e in ys[0].elts]
        op_slot = 0 if ("self[" in yl[0] or "_ops" in yl[0]) else 1
        t_op, t_idx = norm(loop.target.elts[op_slot]), norm(loop.target.elts[1 - op_slot])
        a0, a1 = norm(arg_or_kw(calls[0], 0, "op")), norm(arg_or_kw(calls[0], 1, "index"))
        ctx.check((a0, a1) == (t_op, t_idx), R2, m.key + ":slots", "(operator, index) yielded by __iter__ reach the (op, index) parameters", f"__iter__ yields ({yl[0]}, {yl[1]}) but the loop passes ({a0}, {a1}) as (op, index)", m)
    else:
        ctx.undecided(R2, m.key + ":slots", "cannot match the loop targets with what PauliTerm.__iter__ yields", m)
    # accumulator starts as a unit-coefficient copy of self
    init = [x for x in md.defs.get(acc, []) if isinstance(x, ast.Call) and x is not calls[0]]
    ok_init = len(init) == 1 and norm(init[0].func) == "self.copy" and _is_one(arg_or_kw(init[0], 0, "new_coefficient"))
    init_self = len(init) == 1 and norm(init[0].func) == "self.copy" and arg_or_kw(init[0], 0, "new_coefficient") is None
    # coefficient bookkeeping: final = acc.coefficient * self.coefficient * other.coefficient  (each exactly once)
    fin = [r for r in returned_exprs(m.node) if isinstance(r, ast.Call) and norm(r.func) == f"{acc}.copy"]
    if len(fin) != 1:
        ctx.undecided(R2, m.key + ":coefficient", f"cannot find the final `{acc}.copy(new_coefficient=...)`", m)
        return

    def resolve(name_node):
        ds = md.defs.get(name_node.id, [])
        if name_node.id in (acc, other, "self"):
            return None
        return ds[0] if len(ds) == 1 and isinstance(ds[0], ast.AST) else None

    got = poly(arg_or_kw(fin[0], 0, "new_coefficient"), resolve)
    want_unit = p_mul(p_mul(p_atom(f"{acc}.coefficient"), p_atom("self.coefficient")), p_atom(f"{other}.coefficient"))
    want_self = p_mul(p_atom(f"{acc}.coefficient"), p_atom(f"{other}.coefficient"))
    ok = (ok_init and poly_eq(got, want_unit)) or (init_self and poly_eq(got, want_self))
    ctx.check(ok, R2, m.key + ":coefficient", "result coefficient = accumulated phase * self.coefficient * other.coefficient, each exactly once", f"coefficient bookkeeping is off: accumulator starts as {short(init[0]) if init else '?'} and the result takes {show(got)}", m)

    # ---- PauliSum.__mul__: distribution order
    sm = repo.func(f"{MOD}:PauliSum.__mul__")
    ctx.analysed(sm)
    so = positional_params(sm.node)[1]
    sd = Defs(sm.node)
    comps = [n for n in body_walk(sm.node) if isinstance(n, ast.ListComp) and len(n.generators) in (1, 2)]
    decided = False
    for c in comps:
        if isinstance(c.elt, ast.BinOp) and isinstance(c.elt.op, ast.Mult):
            l, r = norm(c.elt.left), norm(c.elt.right)
            left_src = right_src = None
            if len(c.generators) == 1 and isinstance(c.generators[0].iter, ast.Call) and (dotted(c.generators[0].iter.func) or "").split(".")[-1] == "product" and len(c.generators[0].iter.args) == 2 and isinstance(c.generators[0].target, ast.Tuple) and len(c.generators[0].target.elts) == 2:
                t0, t1 = (norm(e) for e in c.generators[0].target.elts)
                s0, s1 = c.generators[0].iter.args
                srcs = {t0: s0, t1: s1}
                left_src, right_src = srcs.get(l), srcs.get(r)
            elif len(c.generators) == 2:
                srcs = {norm(g.target): g.iter for g in c.generators}
                left_src, right_src = srcs.get(l), srcs.get(r)
            if left_src is None or right_src is None:
                continue
            decided = True
            la, ra = sd.atoms(left_src), sd.atoms(right_src)
            ok = "self.terms" in la and so in ra and "self.terms" not in ra
            ctx.check(ok, R2, sm.key + ":distribution", "each product is (term of self) * (term of other), in that order", f"products are formed as {short(c.elt)} with the left factor drawn from {short(left_src)} and the right from {short(right_src)}: for non-commuting terms the operands are in the wrong order", sm)
    if not decided:
        ctx.undecided(R2, sm.key + ":distribution", "cannot find the comprehension that multiplies pairs of terms", sm)
    # scalar operand is turned into identity * scalar
    sc = [x for x in ast.walk(sm.node) if isinstance(x, ast.IfExp) and "isinstance" in norm(x.test) and "PauliSum" in norm(x.test)]
    if sc:
        ok = norm(sc[0].body) == f"{so}.terms" and "identity()" in norm(sc[0].orelse) and so in norm(sc[0].orelse)
        ctx.check(ok, R2, sm.key + ":scalar-operand", "a term or number on the right becomes [identity * it]", f"right operand that is not a sum is converted by {short(sc[0].orelse)}", sm)


def _is_one(n: Optional[ast.AST]) -> bool:
    try:
        return n is not None and const_value(n) == 1
    except ValueError:
        return False


# ----------------------------------------------------------------------------- D3
class _Denote(ast.NodeTransformer):
    """Rewrites the library's embedding idioms into plain arithmetic on {self, other}."""

    def visit_Call(self, node: ast.Call):
        self.generic_visit(node)
        d = dotted(node.func) or ""
        base = d.split(".")[-1]
        if base == "PauliTerm" and node.args and const_str(node.args[0]) in ("I0", "I"):
            c = arg_or_kw(node, 1, "coefficient")
            return c if c is not None else ast.Constant(value=1)
        if base == "PauliSum" and len(node.args) == 1 and isinstance(node.args[0], (ast.List, ast.Tuple)) and node.args[0].elts:
            out = node.args[0].elts[0]
            for e in node.args[0].elts[1:]:
                out = ast.BinOp(left=out, op=ast.Add(), right=e)
            return out
        if base == "cast" and len(node.args) == 2:
            return node.args[1]
        if isinstance(node.func, ast.Attribute) and node.func.attr == "simplify" and not node.args:
            return node.func.value
        if isinstance(node.func, ast.Attribute) and node.func.attr == "copy":
            c = arg_or_kw(node, 0, "new_coefficient")
            if c is None:
                return node.func.value
            recv = node.func.value
            return ast.BinOp(left=ast.BinOp(left=recv, op=ast.Mult(), right=c), op=ast.Div(), right=ast.Attribute(value=recv, attr="coefficient", ctx=ast.Load()))
        if base == "identity" and not node.args:
            return ast.Constant(value=1)
        return node


def denote(expr: ast.AST, defs: Defs, keep=("self", "other")):
    e = _Denote().visit(copy.deepcopy(expr))
    ast.fix_missing_locations(e)

    def resolve(name_node):
        if name_node.id in keep:
            return None
        ds = [x for x in defs.defs.get(name_node.id, []) if isinstance(x, ast.AST)]
        if len(ds) == 1:
            r = _Denote().visit(copy.deepcopy(ds[0]))
            ast.fix_missing_locations(r)
            return r
        return None

    return poly(e, resolve)


def check_hash_not_finer_than_eq(ctx, rule: str):
    """Sums are compared (and Hermiticity is tested) through *sets* of terms, so two terms that `==` calls equal must fall into one
    hash bucket far more often than not. `==` is tolerant (isclose on the coefficient); the hash therefore has to be taken of the
    coefficient *rounded* to a grid much coarser than that tolerance -- hashing the raw number separates terms that differ by one
    unit in the last place (1.2e-16j of float noise on a real coefficient)."""
    repo = ctx.repo
    te = repo.func(f"{MOD}:PauliTerm.__eq__")
    th = repo.func(f"{MOD}:PauliTerm.__hash__")
    tolerant = any(isinstance(c, ast.Call) and (dotted(c.func) or "").split(".")[-1] in ("isclose", "allclose") for c in body_walk(te.node))
    if not tolerant:
        ctx.ok(rule, th.key + ":coarser-than-eq", "term equality is exact: any hash of the same fields is consistent", th)
        return
    hs = [n for n in body_walk(th.node) if isinstance(n, ast.Call) and dotted(n.func) == "hash"]
    if not hs:
        ctx.undecided(rule, th.key + ":coarser-than-eq", "no hash(...) call found", th)
        return
    d = Defs(th.node)
    raw = []

    def coeff_uses(e, rounded):
        if isinstance(e, ast.Call) and dotted(e.func) == "round":
            for a in e.args:
                coeff_uses(a, True)
            return
        if isinstance(e, ast.Attribute) and e.attr == "coefficient" and norm(e.value) == "self":
            if not rounded:
                raw.append(e)
            return
        if isinstance(e, ast.Name):
            for v in d.defs.get(e.id, []):
                if isinstance(v, ast.AST):
                    coeff_uses(v, rounded)
            return
        for ch in ast.iter_child_nodes(e):
            coeff_uses(ch, rounded)

    for a in hs[-1].args:
        coeff_uses(a, False)
    ctx.check(not raw, rule, th.key + ":coarser-than-eq", "the hash sees the coefficient only through round(...)", f"PauliTerm.__hash__ hashes the coefficient itself (`{short(hs[-1], 80)}`) while PauliTerm.__eq__ is tolerant: two terms that compare equal (a real coefficient and the same value with 1e-16j of rounding noise) get different hashes, so the set comparisons behind PauliSum.__eq__ and is_hermitian call equal operators different", f"{th.module.relpath}:{hs[-1].lineno}")


def check_is_constant(ctx, rule: str):
    """`is_constant` asks whether a term has no Pauli factor -- a statement about its operators. Several routines branch on it
    (time evolution: empty circuit; averaging: no shots needed; expectation: the coefficient itself). Letting the coefficient
    into the answer ("a vanishing term is constant") makes them drop or mis-handle terms with small coefficients."""
    f = ctx.repo.func(f"{MOD}:PauliTerm.is_constant")
    ctx.analysed(f)
    rets = returned_exprs(f.node)
    r = rets[0] if len(rets) == 1 else None
    ok = r is not None and norm(r) in ("self._ops == {}", "not self._ops", "len(self._ops) == 0", "self._ops == dict()", "not self.operations", "len(self.operations) == 0", "self.operations == ()", "self.operations == frozenset()")
    uses_coeff = r is not None and any(isinstance(x, ast.Attribute) and x.attr == "coefficient" for x in ast.walk(r))
    if uses_coeff:
        ctx.violation(rule, f.key, f"PauliTerm.is_constant is `{short(r, 90)}`: the coefficient takes part in the answer, so a term with Pauli factors and a tiny coefficient counts as constant -- its time evolution becomes the empty circuit whatever the time, and it is skipped as 'needs no measurement'", f"{f.module.relpath}:{r.lineno}")
    else:
        ctx.check(ok, rule, f.key, "constant = no Pauli factor", f"PauliTerm.is_constant returns {short(r) if r is not None else None}: not the test that the term has no Pauli factor", f)


def check_operand_truthiness(ctx):
    """An operator's truth value is its __len__ -- the number of non-identity factors of a term, the number of terms of a sum --
    not "is it zero": the constant term 3*I is falsy without being zero. An arithmetic method that branches on the truthiness of
    its operator operand (`not other`, `if other`) therefore treats constants like 0."""
    repo = ctx.repo
    n = 0
    for cname in ("PauliTerm", "PauliSum"):
        ci = repo.cls(f"{MOD}:{cname}")
        for mname, m in ci.methods.items():
            if not (mname.startswith("__") and mname.strip("_") in ("add", "radd", "sub", "rsub", "mul", "rmul", "truediv", "pow", "iadd", "isub", "imul", "eq")):
                continue
            ps = positional_params(m.node)
            if len(ps) < 2:
                continue
            other = ps[1]
            n += 1
            atoms = []
            for x in body_walk(m.node):
                t = x.test if isinstance(x, (ast.If, ast.IfExp, ast.While, ast.Assert)) else None
                if t is None:
                    continue
                stack = [t]
                while stack:
                    e = stack.pop()
                    if isinstance(e, ast.BoolOp):
                        stack.extend(e.values)
                    elif isinstance(e, ast.UnaryOp) and isinstance(e.op, ast.Not):
                        stack.append(e.operand)
                    else:
                        atoms.append(e)
            hits = [e for e in atoms if isinstance(e, ast.Name) and e.id == other]
            if hits and mname.strip("_") != "pow":
                ctx.violation(R3, f"{m.key}:operand-truthiness", f"{cname}.{mname} branches on the truth value of its operand `{other}`: for an operator that is its length (a constant term such as 3*I0 has no non-identity factor and is falsy, the empty sum is falsy), not whether it denotes zero -- `s * PauliTerm('I0', 3.0)` then takes the branch meant for 0", f"{m.module.relpath}:{hits[0].lineno}")
            else:
                ctx.ok(R3, f"{m.key}:operand-truthiness", "no branch on the truth value of the operator operand", m)
    return n


def check_linear_forms(ctx):
    repo = ctx.repo
    S, O = p_atom("self"), None
    for cname in ("PauliTerm", "PauliSum"):
        ci = repo.cls(f"{MOD}:{cname}")
        for dunder, build in (
            ("__radd__", lambda s, o: p_add(s, o)),
            ("__sub__", lambda s, o: p_add(s, o, -1)),
            ("__rsub__", lambda s, o: p_add(o, s, -1)),
            ("__truediv__", lambda s, o: p_mul(s, p_inv(o))),
            ("__rmul__", lambda s, o: p_mul(s, o)),
            ("__add__", lambda s, o: p_add(s, o)),
        ):
            m = ci.methods.get(dunder)
            if m is None:
                continue  # reported by D4
            ctx.analysed(m)
            ps = positional_params(m.node)
            if len(ps) != 2:
                ctx.undecided(R3, m.key, "unexpected signature", m)
                continue
            other = ps[1]
            d = Defs(m.node)
            want = build(p_atom("self"), p_atom(other))
            if cname == "PauliSum" and dunder in ("__add__", "__rmul__"):
                _check_sum_comprehension(ctx, m, other, dunder, d)
                continue
            rets = returned_exprs(m.node)
            if not rets:
                ctx.undecided(R3, m.key, "no return expression", m)
                continue
            for i, r in enumerate(rets):
                got = denote(r, d, keep=("self", other))
                construct = f"{m.key}:return:{norm(r)[:60]}"  # keyed by content: the canonical view may list the exits in another order
                if got is None:
                    ctx.undecided(R3, construct, f"return expression {short(r)} is outside the arithmetic fragment", f"{m.module.relpath}:{r.lineno}")
                else:
                    ctx.check(poly_eq(got, want), R3, construct, f"{short(r)} denotes {show(want)}", f"{cname}.{dunder} returns {short(r)}, which denotes {show(got)}; the operator must denote {show(want)}", f"{m.module.relpath}:{r.lineno}")
    # scalar branch of PauliTerm.__mul__
    m = repo.func(f"{MOD}:PauliTerm.__mul__")
    other = positional_params(m.node)[1]
    d = Defs(m.node)
    rets = [r for r in returned_exprs(m.node) if norm(r.func if isinstance(r, ast.Call) else r).startswith("self.copy")]
    for i, r in enumerate(rets):
        got = denote(r, d, keep=("self", other))
        want = p_mul(p_atom("self"), p_atom(other))
        ctx.check(poly_eq(got, want), R3, f"{m.key}:scalar-branch:{norm(r)[:60]}", "term * number scales the coefficient by the number", f"term * number returns {short(r)} which denotes {show(got)}, expected {show(want)}", f"{m.module.relpath}:{r.lineno}")
    if not rets:
        ctx.undecided(R3, f"{m.key}:scalar-branch", "no `self.copy(...)` return for the numeric operand", m)
    # any further exit written as an expression over the operands (a shortcut for a "trivial" operand) denotes the product as well
    covered = {id(r) for r in rets} | {id(r) for r in returned_exprs(m.node) if "PauliSum" in norm(r)}
    for r in returned_exprs(m.node):
        if id(r) in covered or isinstance(r, ast.Name) or (isinstance(r, ast.Constant) and r.value is NotImplemented) or norm(r) == "NotImplemented":
            continue
        loop_built = {t.id for l in body_walk(m.node) if isinstance(l, ast.For) for st in ast.walk(l) if isinstance(st, (ast.Assign, ast.AugAssign)) for t in (st.targets if isinstance(st, ast.Assign) else [st.target]) if isinstance(t, ast.Name)}
        if loop_built & {n.id for n in ast.walk(r) if isinstance(n, ast.Name)}:
            continue  # the general term-by-term product, accumulated in a loop: decided by C03-D2
        got = denote(r, d, keep=("self", other))
        want = p_mul(p_atom("self"), p_atom(other))
        if got is None:
            continue
        # under `if self.is_constant:` the receiver *is* its coefficient (times the identity), likewise for the other operand
        from ..astutil import parent_map as _pm

        par_ = _pm(m.node)
        guards_ = set()
        x_ = r
        while x_ in par_:
            prev_, x_ = x_, par_[x_]
            if isinstance(x_, ast.If) and any(prev_ is b or any(prev_ is y for y in ast.walk(b)) for b in x_.body):
                guards_.add(norm(x_.test))
        alts = [want]
        if "self.is_constant" in guards_:
            alts.append(p_mul(p_atom("self.coefficient"), p_atom(other)))
        if f"{other}.is_constant" in guards_:
            alts.append(p_mul(p_atom("self"), p_atom(f"{other}.coefficient")))
        ctx.check(any(poly_eq(got, w_) for w_ in alts), R3, f"{m.key}:shortcut:{norm(r)[:60]}", "the shortcut exit denotes self * other", f"PauliTerm.__mul__ has an exit returning {short(r)}, which denotes {show(got)}, not {show(want)}: the operand the shortcut treats as trivial (a constant term, say) still carries a coefficient, which is dropped", f"{m.module.relpath}:{r.lineno}")
    # first two branches of PauliTerm.__mul__ with a sum: (PauliSum([self]) * other)
    sums = [r for r in returned_exprs(m.node) if "PauliSum" in norm(r)]
    for i, r in enumerate(sums):
        got = denote(r, d, keep=("self", other))
        want = p_mul(p_atom("self"), p_atom(other))
        # commutative polynomials cannot see operand order: check it syntactically too
        e = _Denote().visit(copy.deepcopy(r))
        order_ok = isinstance(e, ast.BinOp) and isinstance(e.op, ast.Mult) and norm(e.left) == "self" and norm(e.right) == other
        ctx.check(poly_eq(got, want) and order_ok, R3, f"{m.key}:sum-branch:{norm(r)[:60]}", "term * sum = (sum of the term) * sum, receiver on the left", f"term * sum returns {short(r)}: " + ("operands are swapped (sums do not commute)" if poly_eq(got, want) else f"denotes {show(got)}"), f"{m.module.relpath}:{r.lineno}")


def _check_sum_comprehension(ctx, m, other, dunder, d: Defs):
    comps = [n for n in body_walk(m.node) if isinstance(n, ast.ListComp) and len(n.generators) == 1]
    # a mapping built *by a constructor* from (key, term) pairs keeps the last pair of every key: an operand is allowed to hold
    # the same operator twice (nothing simplifies the list the constructor receives), so such a table silently drops terms
    for n in body_walk(m.node):
        gens = pair = None
        if isinstance(n, ast.Call) and (dotted(n.func) or "").split(".")[-1] in ("dict", "OrderedDict") and n.args and isinstance(n.args[0], (ast.GeneratorExp, ast.ListComp)):
            g = n.args[0]
            if isinstance(g.elt, ast.Tuple) and len(g.elt.elts) == 2:
                gens, pair = g.generators, (g.elt.elts[0], g.elt.elts[1])
        elif isinstance(n, ast.DictComp):
            gens, pair = n.generators, (n.key, n.value)
        if not gens or len(gens) != 1 or gens[0].ifs:
            continue
        it, tgt = norm(gens[0].iter), norm(gens[0].target)
        if it in ("self.terms", f"{other}.terms") and norm(pair[1]) == tgt and tgt in {x.id for x in ast.walk(pair[0]) if isinstance(x, ast.Name)}:
            ctx.violation(R3, m.key + ":terms", f"the terms of {it} are put in a mapping keyed by `{short(pair[0])}` by a constructor (last pair of a key wins): two terms of the operand with the same key overwrite each other, so the result is not the sum of all terms", f"{m.module.relpath}:{n.lineno}")
            return
    if len(comps) != 1:
        ctx.undecided(R3, m.key, f"expected one comprehension building the new terms, found {len(comps)}", m)
        return
    c = comps[0]
    tgt = norm(c.generators[0].target)
    it = c.generators[0].iter
    if c.generators[0].ifs:
        ctx.violation(R3, m.key + ":terms", f"terms are filtered by `{short(c.generators[0].ifs[0])}` before they are combined: some terms of the operands are dropped", f"{m.module.relpath}:{c.lineno}")
        return
    elt = denote(c.elt, d, keep=("self", other, tgt))
    if dunder == "__add__":
        parts = None
        if isinstance(it, ast.Call) and (dotted(it.func) or "").split(".")[-1] == "chain":
            parts = [norm(a) for a in it.args]
        elif isinstance(it, ast.BinOp) and isinstance(it.op, ast.Add):
            parts = [norm(_strip_list(it.left)), norm(_strip_list(it.right))]
        elif isinstance(it, ast.List) and all(isinstance(e, ast.Starred) for e in it.elts):
            parts = [norm(e.value) for e in it.elts]
        ok = parts is not None and sorted(parts) == sorted(["self.terms", f"{other}.terms"]) and poly_eq(elt, p_atom(tgt))
        ctx.check(ok, R3, m.key + ":terms", "new sum holds every term of self and every term of other, unchanged", f"PauliSum.__add__ collects {short(c.elt)} for {tgt} in {short(it)}: not exactly the terms of both operands", f"{m.module.relpath}:{c.lineno}")
        # re-bindings of `other` must denote other itself
        for x in d.defs.get(other, []):
            if isinstance(x, ast.AST):
                got = denote(x, Defs(ast.parse("def f(): pass").body[0]), keep=("self", other))
                ctx.check(poly_eq(got, p_atom(other)), R3, m.key + f":coerce:{short(x, 40)}", f"{short(x)} denotes the operand itself", f"operand is converted by {short(x)}, which denotes {show(got)} rather than the operand", f"{m.module.relpath}:{x.lineno}")
    else:
        ok = norm(it) == "self.terms" and poly_eq(elt, p_mul(p_atom(tgt), p_atom(other)))
        ctx.check(ok, R3, m.key + ":terms", "every term of self multiplied by the number", f"PauliSum.__rmul__ builds {short(c.elt)} for {tgt} in {short(it)}: denotes {show(elt)} per term, expected {tgt}*{other} over self.terms", f"{m.module.relpath}:{c.lineno}")
    rets = returned_exprs(m.node)
    holder = [name for name, ds in d.defs.items() if any(isinstance(x, ast.AST) and any(y is c for y in ast.walk(x)) for x in ds)]
    ok = len(rets) == 1 and any(h in {n.id for n in ast.walk(rets[0]) if isinstance(n, ast.Name)} for h in holder) or (len(rets) == 1 and any(y is c for y in ast.walk(rets[0])))
    ctx.check(ok, R3, m.key + ":result", "the result is built from those terms", f"{m.qualname} returns {short(rets[0]) if rets else '<none>'}, which is not built from the combined terms", m)


def _strip_list(e: ast.AST) -> ast.AST:
    if isinstance(e, ast.Call) and dotted(e.func) in ("list", "tuple") and len(e.args) == 1:
        return e.args[0]
    return e


# ----------------------------------------------------------------------------- D4
def _int_eval(e: ast.AST, env: Dict[str, int]) -> Optional[int]:
    if isinstance(e, ast.Constant) and isinstance(e.value, int) and not isinstance(e.value, bool):
        return e.value
    if isinstance(e, ast.Name) and e.id in env:
        return env[e.id]
    if isinstance(e, ast.BinOp):
        l, r = _int_eval(e.left, env), _int_eval(e.right, env)
        if l is None or r is None:
            return None
        try:
            if isinstance(e.op, ast.Add):
                return l + r
            if isinstance(e.op, ast.Sub):
                return l - r
            if isinstance(e.op, ast.Mult):
                return l * r
            if isinstance(e.op, ast.FloorDiv):
                return l // r
            if isinstance(e.op, ast.Mod):
                return l % r
            if isinstance(e.op, ast.RShift):
                return l >> r
            if isinstance(e.op, ast.BitAnd):
                return l & r
        except ZeroDivisionError:
            return None
    if isinstance(e, ast.UnaryOp) and isinstance(e.op, ast.USub):
        v = _int_eval(e.operand, env)
        return None if v is None else -v
    return None


def _bool_eval(e: ast.AST, env: Dict[str, int]) -> Optional[bool]:
    if isinstance(e, ast.Compare) and len(e.ops) == 1:
        l, r = _int_eval(e.left, env), _int_eval(e.comparators[0], env)
        if l is None or r is None:
            return None
        op = e.ops[0]
        return {ast.Eq: l == r, ast.NotEq: l != r, ast.Lt: l < r, ast.LtE: l <= r, ast.Gt: l > r, ast.GtE: l >= r}.get(type(op))
    if isinstance(e, ast.UnaryOp) and isinstance(e.op, ast.Not):
        v = _bool_eval(e.operand, env)
        return None if v is None else not v
    v = _int_eval(e, env)
    return None if v is None else bool(v)


class _ExpUndecided(Exception):
    pass


class _ExpWrong(Exception):
    pass


def exponent_count(func: ast.AST, n: int, depth: int = 0) -> int:
    """Number of factors of the base in the value ``func(base, n)`` returns, found by evaluating the
    helper in the *exponent domain*: base -> 1, identity() -> 0, a * b -> a + b; integer tests on
    the power are evaluated on the concrete n."""
    if depth > 80:
        raise _ExpUndecided("recursion does not terminate")
    ps = positional_params(func)
    base, power = ps[0], ps[1]
    ienv = {power: n}
    venv: Dict[str, int] = {base: 1}

    def val(e: ast.AST) -> int:
        if isinstance(e, ast.Name) and e.id in venv:
            return venv[e.id]
        if isinstance(e, ast.BinOp) and isinstance(e.op, (ast.Mult, ast.MatMult)):
            return val(e.left) + val(e.right)
        if isinstance(e, ast.BinOp) and isinstance(e.op, ast.Pow):
            k = _int_eval(e.right, ienv)
            if k is None or k < 0:
                raise _ExpUndecided(f"power {short(e)}")
            return val(e.left) * k
        if isinstance(e, ast.Call):
            d = dotted(e.func)
            if d == func.name and len(e.args) == 2:
                if val(e.args[0]) != 1:
                    raise _ExpUndecided("recursion on something other than the base")
                k = _int_eval(e.args[1], ienv)
                if k is None:
                    raise _ExpUndecided(f"recursive exponent {short(e.args[1])} cannot be evaluated for power {n}")
                if k < 0 or k >= n:
                    raise _ExpWrong(f"for power {n} the helper recurses with exponent {short(e.args[1])} = {k}: it never reaches the base case (or passes it)")
                return exponent_count(func, k, depth + 1)
            if isinstance(e.func, ast.Attribute) and e.func.attr == "identity" and not e.args:
                return 0
            if isinstance(e.func, ast.Attribute) and e.func.attr == "copy" and not e.args:
                return val(e.func.value)
            if d == "cast" and len(e.args) == 2:
                return val(e.args[1])
        raise _ExpUndecided(f"expression {short(e)}")

    def block(stmts) -> Optional[int]:
        for s in stmts:
            if isinstance(s, ast.Expr) and isinstance(s.value, ast.Constant):
                continue
            if isinstance(s, ast.If):
                t = _bool_eval(s.test, ienv)
                if t is None:
                    raise _ExpUndecided(f"test {short(s.test)}")
                r = block(s.body if t else s.orelse)
                if r is not None:
                    return r
                continue
            if isinstance(s, ast.Return) and s.value is not None:
                return val(s.value)
            if isinstance(s, ast.Assign) and len(s.targets) == 1 and isinstance(s.targets[0], ast.Name):
                iv = _int_eval(s.value, ienv)
                if iv is not None and not any(isinstance(x, ast.Name) and x.id in venv for x in ast.walk(s.value)):
                    ienv[s.targets[0].id] = iv
                else:
                    venv[s.targets[0].id] = val(s.value)
                continue
            raise _ExpUndecided(f"statement {short(s)}")
        return None

    r = block(func.body)
    if r is None:
        raise _ExpUndecided("no return reached")
    return r


def check_operator_set(ctx):
    repo = ctx.repo
    t, s = repo.cls(f"{MOD}:PauliTerm"), repo.cls(f"{MOD}:PauliSum")
    for d in DUNDERS:
        for ci in (t, s):
            ctx.check(d in ci.methods, R4, f"{ci.key}.{d}:present", f"{ci.name} defines {d}", f"{ci.name} does not define {d}: the operation is not offered on that side (mixed expressions fall back to the other operand's reflected method or fail)", ci.where)
    for ci in (t, s):
        m = ci.methods.get("__pow__")
        if m is None:
            continue
        ctx.analysed(m)
        p = positional_params(m.node)[1]
        cfg = cfg_of(m.node)
        guards = [n for n in cfg.nodes if n.kind == "test" and isinstance(n.ast, ast.If) and branch_raises(cfg, n, "true")]
        ok = False
        for g in guards:
            t_ = g.ast.test
            txt = norm(t_)
            has_type = f"isinstance({p}, int)" in txt
            neg = [c for c in ast.walk(t_) if isinstance(c, ast.Compare) and norm(c.left) == p and len(c.ops) == 1]
            rejects_neg = any(_bool_eval(c, {p: -1}) is True and _bool_eval(c, {p: 0}) is False and _bool_eval(c, {p: 1}) is False for c in neg)
            if has_type and rejects_neg and isinstance(t_, ast.BoolOp) and isinstance(t_.op, ast.Or):
                ok = True
        ctx.check(ok, R4, m.key + ":guard", "non-integers and negative exponents are rejected, 0 is accepted", f"{m.qualname} does not reject exactly the non-integer and negative exponents before exponentiating", m)
        calls = [n for n in body_walk(m.node) if isinstance(n, ast.Call) and dotted(n.func) == "_efficient_exponentiation"]
        ok = len(calls) == 1 and len(calls[0].args) == 2 and norm(calls[0].args[0]) in ("self", "self.copy()") and norm(calls[0].args[1]) == p
        ctx.check(ok, R4, m.key + ":delegates", "delegates to the exponentiation helper with (self, power)", f"{m.qualname} does not pass (self, {p}) to the exponentiation helper", m)
    f = repo.func(f"{MOD}:_efficient_exponentiation")
    ctx.analysed(f)
    bad = None
    try:
        for n in range(0, 65):
            got = exponent_count(f.node, n)
            if got != n:
                bad = (n, got)
                break
    except _ExpUndecided as e:
        ctx.undecided(R4, f.key + ":exponent-domain", f"cannot evaluate the helper in the exponent domain: {e}", f)
        return
    except _ExpWrong as e:
        ctx.violation(R4, f.key + ":exponent-domain", f"_efficient_exponentiation: {e}", f)
        return
    ctx.check(bad is None, R4, f.key + ":exponent-domain", "helper(base, n) is a product of exactly n copies of the base for n = 0..64 (0 -> identity)", f"_efficient_exponentiation(base, {bad[0]}) multiplies {bad[1]} copies of the base" if bad else "", f)
    # identity() is the unit: coefficient 1 on the empty operator
    for ci in (t, s):
        m = ci.methods.get("identity")
        if m is None:
            ctx.violation(R4, f"{ci.key}.identity", f"{ci.name}.identity is missing (power 0 needs it)", ci.where)
            continue
        rets = returned_exprs(m.node)
        got = denote(rets[0], Defs(m.node)) if len(rets) == 1 else None
        ctx.check(poly_eq(got, p_const(1)), R4, m.key, "identity() denotes 1", f"{ci.name}.identity() returns {short(rets[0]) if rets else '?'}, which does not denote the unit operator", m)


# ----------------------------------------------------------------------------- D5
def check_simplify(ctx):
    repo = ctx.repo
    f = repo.func(f"{MOD}:PauliSum.simplify")
    ctx.analysed(f)
    d = Defs(f.node)
    loops = [n for n in body_walk(f.node) if isinstance(n, ast.For)]
    group_loop = [l for l in loops if norm(l.iter) == "self.terms"]
    if len(group_loop) != 1:
        ctx.undecided(R5, f.key + ":grouping", "cannot find the loop over self.terms", f)
        return
    gl = group_loop[0]
    term = norm(gl.target)
    # the grouping key
    key_exprs = []
    for n in ast.walk(gl):
        if isinstance(n, ast.Subscript) and isinstance(n.value, ast.Name) and isinstance(n.ctx, ast.Store):
            key_exprs.append(n.slice)
        if isinstance(n, ast.Call) and isinstance(n.func, ast.Attribute) and n.func.attr == "setdefault" and n.args:
            key_exprs.append(n.args[0])
    ok_key = bool(key_exprs)
    seen = set()
    for k in key_exprs:
        kk = k
        hops = 0
        while isinstance(kk, ast.Name) and hops < 4:
            ds = [x for x in d.defs.get(kk.id, []) if isinstance(x, ast.AST)]
            if len(ds) != 1:
                break
            kk, hops = ds[0], hops + 1
        attrs = {dotted(n) for n in ast.walk(kk) if isinstance(n, ast.Attribute)}
        order_dependent = any(isinstance(n, ast.Call) and dotted(n.func) in ("tuple", "list", "str", "repr") for n in ast.walk(kk)) and f"{term}.operations" not in attrs
        good = (f"{term}.operations" in attrs or f"{term}._ops" in attrs or f"{term}._ops.items" in attrs) and f"{term}.coefficient" not in attrs and f"{term}.qubits" not in attrs and not order_dependent
        ok_key = ok_key and good
    ctx.check(ok_key, R5, f.key + ":grouping-key", "terms are grouped by their operator part (qubit -> letter), nothing else", f"like terms are grouped by {', '.join(short(k) for k in key_exprs) or '<nothing>'} (not by the order-insensitive operator part alone): terms with different operators would be merged, or equal operators built in a different order kept apart", f"{f.module.relpath}:{gl.lineno}")
    # every term of the group is kept: append in the 'already there' branch, list of one otherwise
    appends = [n for n in ast.walk(gl) if isinstance(n, ast.Call) and isinstance(n.func, ast.Attribute) and n.func.attr == "append" and n.args and norm(n.args[0]) == term]
    news = [n for n in ast.walk(gl) if isinstance(n, ast.Assign) and isinstance(n.targets[0], ast.Subscript) and isinstance(n.value, ast.List) and [norm(e) for e in n.value.elts] == [term]]
    setd = [n for n in ast.walk(gl) if isinstance(n, ast.Call) and isinstance(n.func, ast.Attribute) and n.func.attr == "setdefault"]
    ctx.check(bool(appends) and (bool(news) or bool(setd)), R5, f.key + ":group-members", "every term joins its group", "a term is not added to its group on some branch (its coefficient would be lost)", f"{f.module.relpath}:{gl.lineno}")
    # ... and no term is left out *before* grouping: the coefficients of like terms are added first and only the sum is compared with
    # 0 -- a term skipped (or the grouping made conditional) on its own coefficient is lost although many such terms add up
    joins = appends + news + [n for n in ast.walk(gl) if isinstance(n, ast.Expr) and any(x in setd for x in ast.walk(n))]
    first_join = min((getattr(n, "lineno", 10**9) for n in joins), default=10**9)
    skips = [n for n in ast.walk(gl) if isinstance(n, (ast.Continue, ast.Break)) and n.lineno < first_join]
    from ..astutil import parent_map as _pm

    par = _pm(gl)
    cond_on_coeff = []
    for j in joins:
        x = j
        while x in par and par[x] is not gl:
            x = par[x]
            if isinstance(x, ast.If) and f"{term}.coefficient" in norm(x.test):
                cond_on_coeff.append(x)
    ctx.check(not skips and not cond_on_coeff, R5, f.key + ":every-term-grouped", "every term reaches its group; only the summed coefficient of a group is compared with 0", "a term is left out before like terms are added up (`" + short((skips or cond_on_coeff or [gl])[0], 60) + "`): coefficients below the drop threshold are discarded one by one although the like terms' sum is not negligible, so simplify() changes the operator's matrix", f"{f.module.relpath}:{(skips or cond_on_coeff or [gl])[0].lineno}")
    # merge loop
    sx = Expander(f.node)
    merge = [l for l in loops if l is not gl and ("values()" in sx.text(l.iter) or "items()" in sx.text(l.iter))]
    if len(merge) != 1:
        ctx.undecided(R5, f.key + ":merge", "cannot find the loop over the groups", f)
        return
    ml = merge[0]
    grp = norm(ml.target) if isinstance(ml.target, ast.Name) else norm(ml.target.elts[-1])
    grp_forms, grp_members = {grp}, {grp}
    if isinstance(ml.target, ast.Tuple) and len(ml.target.elts) == 2 and isinstance(ml.target.elts[0], ast.Name) and isinstance(ml.target.elts[1], ast.Starred) and "items()" not in norm(ml.iter):
        # `for first, *rest in groups.values()`: the group is (first, *rest)
        a_, r_ = ml.target.elts[0].id, norm(ml.target.elts[1].value)
        grp_forms = {f"({a_}, *{r_})", f"[{a_}, *{r_}]"}
        grp_members = {a_}
        grp = a_
    sums = [n for n in ast.walk(ml) if isinstance(n, ast.Call) and dotted(n.func) in ("sum", "np.sum", "math.fsum")]
    ok_sum = False
    for s in sums:
        a = s.args[0] if s.args else None
        if isinstance(a, (ast.GeneratorExp, ast.ListComp)) and len(a.generators) == 1 and norm(a.generators[0].iter) in grp_forms and not a.generators[0].ifs and norm(a.elt) == f"{norm(a.generators[0].target)}.coefficient":
            ok_sum = True
    ctx.check(ok_sum, R5, f.key + ":coefficient-sum", "merged coefficient = sum of the coefficients of all terms of the group", "the merged coefficient is not the plain sum over the whole group of like terms", f"{f.module.relpath}:{ml.lineno}")
    # the merged term keeps the group's operators
    copies = [n for n in ast.walk(ml) if isinstance(n, ast.Call) and isinstance(n.func, ast.Attribute) and n.func.attr == "copy" and arg_or_kw(n, 0, "new_coefficient") is not None]
    mx = Expander(f.node, keep=[grp])
    ok_copy = bool(copies) and all(grp_members & {n.id for n in ast.walk(mx.expand(c.func.value)) if isinstance(n, ast.Name)} for c in copies)
    if copies:
        ctx.check(ok_copy, R5, f.key + ":merged-term", "merged term = a term of the group with the summed coefficient", f"the merged term {short(copies[0])} is not a copy of a member of the same group with the new coefficient", f"{f.module.relpath}:{ml.lineno}")
    else:
        ctx.undecided(R5, f.key + ":merged-term", "cannot find where the merged term is built (expected <member of the group>.copy(new_coefficient=...))", f"{f.module.relpath}:{ml.lineno}")
    # dropping only under isclose(x, 0)
    tests = [n for n in ast.walk(ml) if isinstance(n, ast.If)]
    for i, t in enumerate(tests):
        closes = [c for c in ast.walk(t.test) if isinstance(c, ast.Call) and (dotted(c.func) or "").split(".")[-1] in ("isclose", "allclose")]
        for c in closes:
            zero = len(c.args) >= 2 and _is_zero(c.args[1])
            tol = [kw for kw in c.keywords if kw.arg in ("atol", "rtol", "abs_tol", "rel_tol")]
            loose = [kw for kw in tol if _const_gt(kw.value, 1e-8 if kw.arg in ("atol", "abs_tol") else 1e-5)]
            ctx.check(zero and not loose, R5, f.key + f":drop-test:{short(c, 40)}", "terms are dropped only when the coefficient is within the default tolerance of 0", f"drop test {short(c)} " + ("compares with something other than 0" if not zero else f"spells a tolerance looser than the library's 1e-8 ({short(loose[0].value) if loose else ''})"), f"{f.module.relpath}:{c.lineno}")
    # result
    rets = returned_exprs(f.node)
    ok = len(rets) == 1 and isinstance(rets[0], ast.Call) and dotted(rets[0].func) == "PauliSum"
    ctx.check(ok, R5, f.key + ":result", "returns a new PauliSum of the merged terms", "simplify does not return a new PauliSum built from the merged terms", f)


def _is_zero(n: ast.AST) -> bool:
    try:
        return const_value(n) == 0
    except ValueError:
        return False


def _const_gt(n: ast.AST, bound: float) -> bool:
    try:
        return float(const_value(n)) > bound
    except (ValueError, TypeError):
        return True  # a non-literal tolerance cannot be shown to be tight


# ----------------------------------------------------------------------------- D6
def check_equality(ctx):
    repo = ctx.repo
    mod = repo.module(MOD)
    se = repo.func(f"{MOD}:PauliSum.__eq__")
    ctx.analysed(se)
    other = positional_params(se.node)[1]
    rets = returned_exprs(se.node)
    final = [r for r in rets if isinstance(r, ast.Compare) and "terms" in norm(r)]
    ok = False
    if final:
        c = final[-1]
        sides = [c.left] + list(c.comparators)
        ok = len(sides) == 2 and all(isinstance(x, ast.Call) and dotted(x.func) in ("set", "frozenset", "Counter", "collections.Counter", "sorted") for x in sides) and {norm(x.args[0]) for x in sides if x.args} >= {"self.terms"}
    ctx.check(ok, R6, se.key + ":order-insensitive", "sums are compared as sets of terms (term order is irrelevant)", f"PauliSum.__eq__ compares {short(final[-1]) if final else '<nothing>'}: equality then depends on the order in which terms were added", se)
    te = repo.func(f"{MOD}:PauliTerm.__eq__")
    ctx.analysed(te)
    rets = returned_exprs(te.node)
    last = rets[-1] if rets else None
    txt = norm(last) if last is not None else ""
    ok = last is not None and "coefficient" in txt and "operations" in txt and isinstance(last, ast.BoolOp) and isinstance(last.op, ast.And)
    ctx.check(ok, R6, te.key + ":compares-both", "terms are equal iff coefficients are close and (coefficient ~ 0 or operators equal)", f"PauliTerm.__eq__ decides by {short(last) if last is not None else '<nothing>'}: it does not compare both the coefficient and the operator part", te)
    th = repo.func(f"{MOD}:PauliTerm.__hash__")
    ctx.analysed(th)
    hs = [n for n in body_walk(th.node) if isinstance(n, ast.Call) and dotted(n.func) == "hash"]
    ok = bool(hs) and "self.operations" in norm(hs[-1]) and "coefficient" in norm(th.node)
    ctx.check(ok, R6, th.key, "hash covers the rounded coefficient and the operator part (consistent with ==)", "PauliTerm.__hash__ no longer covers both the coefficient and the operators: set-based sum equality then conflates different terms or splits equal ones", th)
    check_hash_not_finer_than_eq(ctx, R6)
    # tolerance literals anywhere in the module
    n = 0
    for fi in mod.functions.values():
        for c in body_walk(fi.node):
            if isinstance(c, ast.Call) and (dotted(c.func) or "").split(".")[-1] in ("isclose", "allclose"):
                n += 1
                tol = [kw for kw in c.keywords if kw.arg in ("atol", "rtol", "abs_tol", "rel_tol")]
                loose = [kw for kw in tol if _const_gt(kw.value, 1e-8 if kw.arg in ("atol", "abs_tol") else 1e-5)]
                if len(c.args) > 2:
                    loose += [None]
                ctx.check(not loose, R6, f"{fi.key}:tolerance:{short(c, 50)}", "default (1e-8) tolerance", f"{short(c)} in {fi.qualname} uses a tolerance looser than the library's 1e-8", f"{mod.relpath}:{c.lineno}")
    ctx.extra["closeness_tests"] = n


def check_purity(ctx):
    from .c20 import effects_for, mutation_obligations

    repo = ctx.repo
    eff = effects_for(ctx)
    funcs = []
    for cname in ("PauliTerm", "PauliSum"):
        ci = repo.cls(f"{MOD}:{cname}")
        for name in DUNDERS + ["simplify", "copy", "__eq__", "__hash__", "__repr__", "_multiply_by_operator", "identity"]:
            if name in ci.methods:
                funcs.append(ci.methods[name])
    funcs.append(repo.func(f"{MOD}:_efficient_exponentiation"))
    mutation_obligations(ctx, R7, funcs, eff)
    ctx.externals |= eff.externals_seen


def run(ctx):
    from ..lints import check_caches

    check_caches(ctx, "C03-D8 caches", ['operators._pauli_operators'])
    check_operand_truthiness(ctx)
    check_tables(ctx)
    check_term_product(ctx)
    check_linear_forms(ctx)
    check_operator_set(ctx)
    check_simplify(ctx)
    check_equality(ctx)
    check_purity(ctx)
    ctx.floor("C03-D1", 16)
    ctx.floor("C03-D2", 9)
    ctx.floor("C03-D3", 14)
    ctx.floor("C03-D4", 20)
    ctx.floor("C03-D5", 6)
    ctx.floor("C03-D6", 5)
    ctx.floor("C03-D7", 20)
