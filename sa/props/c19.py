"""C19 — translating symbolic expressions preserves their value."""
from __future__ import annotations

import ast
from typing import Dict, List, Optional, Set, Tuple

from ..astutil import arg_or_kw, body_walk, const_str, const_value, dotted, kwarg, norm, positional_params, short, walk_local
from ..cfg import branch_raises, cfg_of
from ..common import find_calls_named, returned_exprs
from ..orient import count_reversals

EXPLANATION = (
    "Structural necessary conditions: (D1) refusal points: the default arm of expression_from_sympy has no normal "
    "exit, and translate_function_call tests membership of the *same* name it looks up and raises before the lookup; "
    "(D2) every function name the converter can emit as a literal is a key of SYMPY_DIALECT.known_functions, mapped to "
    "the callable that name denotes (add/mul/sub/div/pow -> the operator of that name, elementary functions -> the "
    "sympy function of the same name), with the right arity class: names emitted with a whole args tuple of an n-ary "
    "sympy node (Add, Mul) map to reduction(...), two-element and one-element tuples to binary / unary callables; "
    "(D3) special cases are position-consistent: each predicate (x * 1/y, x + (-y)) pins the arity to two and "
    "inspects exactly one operand position, and its consumer takes the reciprocal's base / the negated operand from "
    "that position and the other operand from the other position, in the order the emitted function expects; the "
    "Pow arm maps exponent -1 to div(1, base), 1/2 to sqrt(base), anything else to pow(args); (D4) the registry "
    "covers Symbol, Integer, Float, Rational, ImaginaryUnit, Add, Mul, Pow, Function, tuple and Number, each arm "
    "returning the native value of that node (int / float / 1j / Symbol(str) / order-preserving tuple); translation "
    "arms use the dialect's own factories and pass translated arguments in order; reduction is a left fold; (D5) "
    "natural keys split names on the capturing digit-group pattern, turn all-digit groups into integers with int() "
    "and leave the rest, and the revlex key is exactly the reversed natural key."
    ' Round 5: (D5) natural keys are position-aligned (re.split with a capturing group, not groupby runs); no unsound cache.'
    " Round 7: every exit of the product / sum arm is a FunctionCall over the node's operands (D3)."
)
RULE_TEXT = "instances = registry arms, emitted (name, arity) pairs vs dialect entries, predicate/consumer position pairs, refusal points, key-construction obligations; exhaustive over the dispatch registry and the dialect table"
ASSUMPTIONS = [
    "declined: value preservation over all expression trees (depends on sympy's canonical argument ordering and float conversion), numeric ordering of all names beyond the structure of the key",
    "sympy's Add/Mul are n-ary and Pow binary; functools.singledispatch picks the most specific registered class",
]

SE = "circuits.symbolic.sympy_expressions"
TR = "circuits.symbolic.translations"
SO = "circuits.symbolic._sorting"
EX = "circuits.symbolic.expressions"
R1 = "C19-D1 refusal-points"
R2 = "C19-D2 names-vs-dialect"
R3 = "C19-D3 special-cases"
R4 = "C19-D4 registry-arms"
R5 = "C19-D5 natural-keys"

OPERATOR_OF = {"add": "operator.add", "mul": "operator.mul", "sub": "operator.sub", "div": "operator.truediv", "pow": "operator.pow"}
NARY = {"add", "mul"}
REQUIRED_ARMS = ["sympy.Symbol", "sympy.Integer", "sympy.Float", "sympy.Rational", "sympy_numbers.ImaginaryUnit", "sympy.Add", "sympy.Mul", "sympy.Pow", "sympy.Function", "tuple", "Number"]


def _arms(repo, base_key: str) -> Dict[str, object]:
    base = repo.func(base_key)
    out = {}
    for ann, fi in repo.registry(base):
        out[norm(ann) if ann is not None else "?"] = fi
    return out


def check_refusals(ctx):
    repo = ctx.repo
    base = repo.func(f"{SE}:expression_from_sympy")
    ctx.analysed(base)
    cfg = cfg_of(base.node)
    ctx.check(cfg.all_paths_raise(), R1, base.key + ":default-arm", "unsupported sympy node types raise (no normal exit)", "the default arm of expression_from_sympy can return normally: an unsupported construct is translated to something (None) instead of being refused", base)
    raised = [n for n in body_walk(base.node) if isinstance(n, ast.Raise)]
    ok = bool(raised) and all((dotted(r.exc.func) if isinstance(r.exc, ast.Call) else dotted(r.exc)) in ("NotImplementedError", "TypeError", "ValueError") for r in raised if r.exc is not None)
    ctx.check(ok, R1, base.key + ":error-type", "refusal is an exception", "the default arm does not raise an exception", base)
    tf = repo.func(f"{TR}:translate_function_call")
    ctx.analysed(tf)
    fc, dia = positional_params(tf.node)[:2]
    cfg = cfg_of(tf.node)
    guards = [g for g in cfg.nodes if g.kind == "test" and isinstance(g.ast, ast.If) and branch_raises(cfg, g, "true") and norm(g.ast.test) == f"{fc}.name not in {dia}.known_functions"]
    lookups = [n for n in body_walk(tf.node) if isinstance(n, ast.Subscript) and norm(n.value) == f"{dia}.known_functions"]
    ok = bool(guards) and bool(lookups) and all(norm(l.slice) == f"{fc}.name" for l in lookups) and all(cfg.dominates(guards[0], cfg.containing_node(l)) for l in lookups if cfg.containing_node(l) is not None)
    ctx.check(ok, R1, tf.key + ":unknown-function", "unknown function names raise before the table is consulted", "translate_function_call does not test `name not in known_functions` (raising) before looking the same name up", tf)
    rets = returned_exprs(tf.node)
    ok = len(rets) == 1 and isinstance(rets[0], ast.Call) and rets[0].func in lookups and len(rets[0].args) == 1 and isinstance(rets[0].args[0], ast.Starred) and norm(rets[0].args[0].value) == f"translate_tuple({fc}.args, {dia})"
    ctx.check(ok, R4, tf.key + ":application", "known_functions[name](*translated args) with this call's own arguments", f"the function is applied as {short(rets[0]) if rets else '?'}: not the looked-up callable on this call's translated arguments", tf)
    tt = repo.func(f"{TR}:translate_tuple")
    ctx.analysed(tt)
    tp, td = positional_params(tt.node)[:2]
    rets = returned_exprs(tt.node)
    ok = False
    if len(rets) == 1 and isinstance(rets[0], ast.Call) and dotted(rets[0].func) in ("tuple", "list") and isinstance(rets[0].args[0], (ast.GeneratorExp, ast.ListComp)):
        g = rets[0].args[0]
        ok = norm(g.generators[0].iter) == tp and not g.generators[0].ifs and norm(g.elt) == f"translate_expression({norm(g.generators[0].target)}, {td})"
    ctx.check(ok, R4, tt.key, "arguments translated one by one, order kept", "translate_tuple does not translate every element in order", tt)
    arms = _arms(repo, f"{TR}:translate_expression")
    for ann, factory in (("Number", "number_factory"), ("Symbol", "symbol_factory")):
        fi = arms.get(ann)
        if fi is None:
            ctx.violation(R4, f"{TR}:translate_expression:{ann}", f"translate_expression has no arm for {ann}", f"{repo.module(TR).relpath}:1")
            continue
        ctx.analysed(fi)
        p, dd = positional_params(fi.node)[:2]
        rets = returned_exprs(fi.node)
        ok = len(rets) == 1 and norm(rets[0]) == f"{dd}.{factory}({p})"
        ctx.check(ok, R4, fi.key, f"{ann} -> dialect.{factory}(value)", f"the {ann} arm returns {short(rets[0]) if rets else '?'}: not the dialect's own {factory} applied to the value", fi)
    ctx.check("FunctionCall" in arms, R4, f"{TR}:translate_expression:FunctionCall", "arm for FunctionCall", "translate_expression has no arm for FunctionCall", f"{repo.module(TR).relpath}:1")
    tb = repo.func(f"{TR}:translate_expression")
    if not cfg_of(tb.node).all_paths_raise():
        ctx.info(R1, tb.key + ":default-arm", "translate_expression's default arm returns None silently for a node that is not a Number/Symbol/FunctionCall; such nodes cannot be produced by expression_from_sympy (its arms only build those three and tuples, checked in D4)")


def _emitted(repo) -> List[Tuple[str, str, object, ast.Call]]:
    """(name, arity class, function, call) for every FunctionCall(<literal>, args) in the converter."""
    out = []
    mod = repo.module(SE)
    for fi in mod.functions.values():
        for c in body_walk(fi.node):
            if isinstance(c, ast.Call) and dotted(c.func) == "FunctionCall" and c.args:
                name = const_str(c.args[0])
                args = c.args[1] if len(c.args) > 1 else kwarg(c, "args")
                if isinstance(args, ast.Tuple):
                    cls = str(len(args.elts))
                elif isinstance(args, ast.Call) and dotted(args.func) == "expression_from_sympy" and len(args.args) == 1 and norm(args.args[0]).endswith(".args"):
                    cls = "args"
                else:
                    cls = "?"
                out.append((name, cls, fi, c))
    return out


def check_dialect(ctx):
    repo = ctx.repo
    mod = repo.module(SE)
    dia = mod.assigns.get("SYMPY_DIALECT")
    table = None
    if isinstance(dia, ast.Call) and dotted(dia.func) == "ExpressionDialect":
        table = kwarg(dia, "known_functions") or (dia.args[2] if len(dia.args) > 2 else None)
    if not isinstance(table, ast.Dict):
        ctx.undecided(R2, f"{SE}:SYMPY_DIALECT", "known_functions is not a dict literal", f"{mod.relpath}:1")
        return
    entries: Dict[str, ast.AST] = {}
    for k, v in zip(table.keys, table.values):
        ks = const_str(k)
        if ks is None:
            ctx.undecided(R2, f"{SE}:SYMPY_DIALECT:key", f"non-literal key {short(k)}", f"{mod.relpath}:{table.lineno}")
            return
        if ks in entries:
            ctx.violation(R2, f"{SE}:SYMPY_DIALECT:duplicate:{ks}", f"duplicate key {ks!r}: the later entry silently wins", f"{mod.relpath}:{k.lineno}")
        entries[ks] = v
    # each entry denotes what its name says
    for ks, v in entries.items():
        where = f"{mod.relpath}:{v.lineno}"
        inner = v
        is_red = isinstance(v, ast.Call) and dotted(v.func) == "reduction" and len(v.args) == 1
        if is_red:
            inner = v.args[0]
        target = dotted(inner)
        if ks in OPERATOR_OF:
            ok = target == OPERATOR_OF[ks]
            ctx.check(ok, R2, f"{SE}:SYMPY_DIALECT:{ks}:meaning", f"{ks} -> {OPERATOR_OF[ks]}", f"dialect maps {ks!r} to {short(v)}; the name denotes {OPERATOR_OF[ks]}", where)
            ctx.check(is_red == (ks in NARY), R2, f"{SE}:SYMPY_DIALECT:{ks}:arity", "n-ary names fold their arguments, binary names take exactly two", f"dialect maps {ks!r} to {short(v)}: " + ("sympy's Add/Mul carry any number of arguments, so the operator must be folded over them with reduction(...)" if ks in NARY else "a binary operation must not be folded over a variable number of arguments"), where)
        else:
            ok = target is not None and target.split(".")[0] in ("sympy", "sp") and target.split(".")[-1] == ks and not is_red
            ctx.check(ok, R2, f"{SE}:SYMPY_DIALECT:{ks}:meaning", f"{ks} -> sympy.{ks}", f"dialect maps {ks!r} to {short(v)}: not the sympy function of that name", where)
    emitted = _emitted(repo)
    for name, cls, fi, c in emitted:
        where = f"{fi.module.relpath}:{c.lineno}"
        key = f"{fi.key}:emits:{name}/{cls}"
        if name is None:
            if norm(c.args[0]) == "str(function.func)":
                ctx.ok(R2, f"{fi.key}:emits:<function name>", "open-ended function names rely on the unknown-function refusal (D1)", where)
            else:
                ctx.undecided(R2, key, f"function name {short(c.args[0])} is neither a literal nor str(function.func)", where)
            continue
        if name not in entries:
            ctx.violation(R2, key, f"the converter emits FunctionCall({name!r}, ...) but the sympy dialect has no entry {name!r}: translating the tree back raises", where)
            continue
        v = entries[name]
        is_red = isinstance(v, ast.Call) and dotted(v.func) == "reduction"
        if cls == "args":
            owner = norm(c.args[1].args[0]).split(".")[0]
            ann = None
            for a in fi.node.args.args:
                if a.arg == owner and a.annotation is not None:
                    ann = norm(a.annotation)
            nary_node = ann in ("sympy.Add", "sympy.Mul")
            ok = is_red if nary_node else True
            ctx.check(ok, R2, key, f"{name} receives the node's whole argument tuple and is {'folded over it' if nary_node else 'applied to it'}", f"{name!r} is emitted with all arguments of a {ann} node (any number) but the dialect applies {short(v)} to them: it must fold with reduction(...)", where)
        elif cls in ("1", "2"):
            ok = not is_red
            ctx.check(ok, R2, key, f"{name} emitted with {cls} argument(s), applied directly", f"{name!r} is emitted with exactly {cls} argument(s) but the dialect folds {short(v)} over them", where)
        else:
            ctx.undecided(R2, key, f"cannot classify the argument tuple {short(c.args[1]) if len(c.args) > 1 else '?'}", where)
    ctx.extra["emitted_names"] = sorted({n for n, _, _, _ in emitted if n})
    ctx.extra["dialect_names"] = sorted(entries)
    fac = kwarg(dia, "symbol_factory") or dia.args[0]
    ok = isinstance(fac, ast.Lambda) and norm(fac.body) == f"sympy.Symbol({fac.args.args[0].arg}.name)"
    ctx.check(ok, R4, f"{SE}:SYMPY_DIALECT:symbol_factory", "symbols come back as sympy.Symbol(name)", f"symbol_factory is {short(fac)}", f"{mod.relpath}:{dia.lineno}")
    nf = kwarg(dia, "number_factory") or dia.args[1]
    ok = isinstance(nf, ast.Lambda) and norm(nf.body) == nf.args.args[0].arg
    ctx.check(ok, R4, f"{SE}:SYMPY_DIALECT:number_factory", "numbers come back unchanged", f"number_factory is {short(nf)}: it changes numeric leaves", f"{mod.relpath}:{dia.lineno}")
    red = repo.func(f"{EX}:reduction")
    ctx.analysed(red)
    inner = [n for n in ast.walk(red.node) if isinstance(n, ast.FunctionDef) and n is not red.node]
    ok = False
    if len(inner) == 1 and inner[0].args.vararg is not None:
        rets = returned_exprs(inner[0])
        ok = len(rets) == 1 and norm(rets[0]) == f"reduce({positional_params(red.node)[0]}, {inner[0].args.vararg.arg})"
    ctx.check(ok, R4, red.key, "reduction(op)(*args) = reduce(op, args): left fold in argument order", "reduction is not a plain left fold of the operator over the arguments in order", red)


def _predicate_shape(fi, node_cls: str, inner_pos: int) -> Optional[Tuple[int, bool]]:
    """(inspected operand position K, arity pinned to two) of a predicate of the form
    ``len(args) == 2 and isinstance(args[K], <cls>) and args[K].args[<inner_pos>] == -1``; None when
    it inspects several positions or has another shape."""
    rets = returned_exprs(fi.node)
    if len(rets) != 1:
        return None
    e = rets[0]
    conj = list(e.values) if isinstance(e, ast.BoolOp) and isinstance(e.op, ast.And) else [e]
    if any(isinstance(x, ast.BoolOp) and isinstance(x.op, ast.Or) for c in conj for x in ast.walk(c)):
        return None
    arity = any(norm(c) in ("len(args) == 2", "2 == len(args)") for c in conj)
    positions = set()
    ok_inst = ok_val = False
    for c in conj:
        if isinstance(c, ast.Call) and dotted(c.func) == "isinstance" and isinstance(c.args[0], ast.Subscript) and norm(c.args[0].value) == "args" and norm(c.args[1]) == node_cls:
            positions.add(const_value(c.args[0].slice))
            ok_inst = True
        if isinstance(c, ast.Compare) and len(c.ops) == 1 and isinstance(c.ops[0], ast.Eq) and norm(c.comparators[0]) == "-1":
            l = c.left
            if isinstance(l, ast.Subscript) and isinstance(l.value, ast.Attribute) and l.value.attr == "args" and isinstance(l.value.value, ast.Subscript) and norm(l.value.value.value) == "args":
                positions.add(const_value(l.value.value.slice))
                ok_val = const_value(l.slice) == inner_pos
    if not (ok_inst and ok_val) or len(positions) != 1:
        return None
    return positions.pop(), arity


def check_special_cases(ctx):
    from ..common import exit_exprs as _exits

    repo = ctx.repo
    arms = _arms(repo, f"{SE}:expression_from_sympy")
    # ---- x * (1 / y)
    pred = repo.func(f"{SE}:is_multiplication_by_reciprocal")
    ctx.analysed(pred)
    shape = _predicate_shape(pred, "sympy.Pow", 1)
    if shape is None:
        ctx.violation(R3, pred.key, "the predicate does not pin one operand position: it must be `len(args) == 2 and isinstance(args[K], Pow) and args[K].args[1] == -1` for a single K — accepting the reciprocal at either position makes the consumer (which reads fixed positions) build the wrong quotient", pred)
    else:
        K, arity = shape
        ctx.check(arity, R3, pred.key + ":arity", "only two-factor products are treated as quotients", "the predicate does not require exactly two factors: extra factors would be dropped from the quotient", pred)
        mul = arms.get("sympy.Mul")
        if mul is None:
            ctx.undecided(R3, f"{SE}:Mul-arm", "no arm for sympy.Mul")
        else:
            ctx.analysed(mul)
            p = positional_params(mul.node)[0]
            # every exit of the arm emits a function call carrying the node's operands: an exit that answers with a native value
            # computed from *some* operands (a literal built from args[0], say) silently drops the other factors
            from ..common import exit_exprs as _exits

            odd = [e for e in _exits(mul.node) if not (isinstance(e, ast.Call) and dotted(e.func) == "FunctionCall")]
            ctx.check(not odd, R3, mul.key + ":exits", "every exit of the product arm is a FunctionCall over the node's operands", f"the product arm has an exit returning {short(odd[0], 70) if odd else ''}, which is not a function call over the operands of the product: whatever factors that expression does not read are dropped from the translated expression", f"{mul.module.relpath}:{odd[0].lineno}" if odd else mul)
            calls = [c for c in body_walk(mul.node) if isinstance(c, ast.Call) and dotted(c.func) == "FunctionCall" and const_str(c.args[0]) == "div"]
            guard = [s for s in mul.node.body if isinstance(s, ast.If) and norm(s.test) == f"is_multiplication_by_reciprocal({p})"]
            ok = False
            detail = "no div emission under the reciprocal predicate"
            if len(calls) == 1 and len(guard) == 1 and any(x is calls[0] for s in guard[0].body for x in ast.walk(s)) and isinstance(calls[0].args[1], ast.Tuple) and len(calls[0].args[1].elts) == 2:
                num, den = (norm(x) for x in calls[0].args[1].elts)
                ok = num == f"expression_from_sympy({p}.args[{1 - K}])" and den == f"expression_from_sympy({p}.args[{K}].args[0])"
                detail = f"predicate finds the reciprocal at position {K}; consumer emits div({num}, {den}): numerator must be operand {1 - K} and denominator the base of operand {K}"
            if detail.startswith("no div emission"):
                # the emission is not written as FunctionCall("div", (num, den)) under `if predicate(node)`: the construct is not recognised,
                # which is not a decided violation
                ctx.undecided(R3, mul.key + ":div", "cannot find `FunctionCall('div', (numerator, denominator))` under `if is_multiplication_by_reciprocal(...)`", mul)
            else:
                ctx.check(ok, R3, mul.key + ":div", f"div(operand {1 - K}, base of the reciprocal at operand {K})", detail, mul)
            other = [c for c in body_walk(mul.node) if isinstance(c, ast.Call) and dotted(c.func) == "FunctionCall" and const_str(c.args[0]) == "mul"]
            if len(other) != 1:
                ctx.undecided(R3, mul.key + ":mul", "cannot find the single `FunctionCall('mul', ...)` emission", mul)
            else:
                ok = norm(other[0].args[1]) == f"expression_from_sympy({p}.args)"
                ctx.check(ok, R3, mul.key + ":mul", "otherwise mul(all factors)", "the general product does not carry all factors of the sympy node", mul)
    # ---- x + (-y)
    pred = repo.func(f"{SE}:is_addition_of_negation")
    ctx.analysed(pred)
    shape = _predicate_shape(pred, "sympy.Mul", 0)
    if shape is None:
        ctx.violation(R3, pred.key, "the predicate does not pin one operand position: it must be `len(args) == 2 and isinstance(args[K], Mul) and args[K].args[0] == -1` for a single K", pred)
    else:
        K, arity = shape
        ctx.check(arity, R3, pred.key + ":arity", "only two-term sums are treated as differences", "the predicate does not require exactly two terms: extra terms would be dropped from the difference", pred)
        add = arms.get("sympy.Add")
        if add is None:
            ctx.undecided(R3, f"{SE}:Add-arm", "no arm for sympy.Add")
        else:
            ctx.analysed(add)
            p = positional_params(add.node)[0]
            calls = [c for c in body_walk(add.node) if isinstance(c, ast.Call) and dotted(c.func) == "FunctionCall" and const_str(c.args[0]) == "sub"]
            guard = [s for s in add.node.body if isinstance(s, ast.If) and norm(s.test) == f"is_addition_of_negation({p})"]
            ok = False
            detail = "no sub emission under the negation predicate"
            if len(calls) == 1 and len(guard) == 1 and any(x is calls[0] for s in guard[0].body for x in ast.walk(s)) and isinstance(calls[0].args[1], ast.Tuple) and len(calls[0].args[1].elts) == 2:
                a, b = (norm(x) for x in calls[0].args[1].elts)
                ok = a == f"expression_from_sympy({p}.args[{1 - K}])" and b in (f"expression_from_sympy(_negate_sympy_expr({p}.args[{K}]))", f"expression_from_sympy(-{p}.args[{K}])", f"expression_from_sympy({p}.args[{K}] * -1)", f"expression_from_sympy({p}.args[{K}] * (-1))")
                detail = f"predicate finds the negated term at position {K}; consumer emits sub({a}, {b}): minuend must be operand {1 - K}, subtrahend the negation of operand {K}"
            if detail.startswith("no sub emission"):
                ctx.undecided(R3, add.key + ":sub", "cannot find `FunctionCall('sub', (minuend, subtrahend))` under `if is_addition_of_negation(...)`", add)
            else:
                ctx.check(ok, R3, add.key + ":sub", f"sub(operand {1 - K}, -(operand {K}))", detail, add)
            other = [c for c in body_walk(add.node) if isinstance(c, ast.Call) and dotted(c.func) == "FunctionCall" and const_str(c.args[0]) == "add"]
            if len(other) != 1:
                ctx.undecided(R3, add.key + ":add", "cannot find the single `FunctionCall('add', ...)` emission", add)
            else:
                ok = norm(other[0].args[1]) == f"expression_from_sympy({p}.args)"
                ctx.check(ok, R3, add.key + ":add", "otherwise add(all terms)", "the general sum does not carry all terms of the sympy node", add)
            # every exit of the arm is a function call over the node's operands (same reason as for products)
            odd = [e for e in _exits(add.node) if not (isinstance(e, ast.Call) and dotted(e.func) == "FunctionCall")]
            ctx.check(not odd, R3, add.key + ":exits", "every exit of the sum arm is a FunctionCall over the node's operands", f"the sum arm has an exit returning {short(odd[0], 70) if odd else ''}, which is not a function call over the operands of the sum", add)
    neg = repo.func(f"{SE}:_negate_sympy_expr") if repo.has_func(f"{SE}:_negate_sympy_expr") else None
    if neg is not None:
        ctx.analysed(neg)
        q = positional_params(neg.node)[0]
        rets = returned_exprs(neg.node)
        ok = len(rets) == 1 and norm(rets[0]) in (f"{q} * -1", f"-1 * {q}", f"-{q}", f"{q} * (-1)")
        ctx.check(ok, R3, neg.key, "negation multiplies by -1", f"_negate_sympy_expr returns {short(rets[0]) if rets else '?'}", neg)
    # ---- Pow arm
    pw = arms.get("sympy.Pow")
    if pw is None:
        ctx.undecided(R3, f"{SE}:Pow-arm", "no arm for sympy.Pow")
        return
    ctx.analysed(pw)
    p = positional_params(pw.node)[0]
    found = {}
    node = next((s for s in pw.node.body if isinstance(s, ast.If)), None)
    default = None
    while isinstance(node, ast.If):
        t = node.test
        if isinstance(t, ast.Compare) and norm(t.left) == f"{p}.args[1]" and isinstance(t.ops[0], ast.Eq):
            try:
                found[float(const_value(t.comparators[0]))] = node.body
            except (ValueError, TypeError):
                try:
                    found[norm(t.comparators[0])] = node.body
                except Exception:
                    pass
        if len(node.orelse) == 1 and isinstance(node.orelse[0], ast.If):
            node = node.orelse[0]
        else:
            default = node.orelse
            node = None

    def emitted_in(block):
        for s in block or []:
            for c in ast.walk(s):
                if isinstance(c, ast.Call) and dotted(c.func) == "FunctionCall":
                    return const_str(c.args[0]), norm(c.args[1])
        return None

    rec = emitted_in(found.get(-1.0))
    half = emitted_in(found.get(0.5)) or emitted_in(found.get("sympy.Rational(1, 2)")) or emitted_in(found.get("sympy.S.Half"))
    gen = emitted_in(default)
    for tag, got, want, okd, what in (
        ("reciprocal", rec, ("div", f"(1, expression_from_sympy({p}.args[0]))"), "x**-1 -> div(1, x)", "exponent -1"),
        ("sqrt", half, ("sqrt", f"(expression_from_sympy({p}.args[0]),)"), "x**(1/2) -> sqrt(x)", "exponent 1/2"),
        ("general", gen, ("pow", f"expression_from_sympy({p}.args)"), "otherwise pow(base, exponent)", "the general power"),
    ):
        if got is None:
            # no `if <node>.args[1] == <exponent>: return FunctionCall(...)` arm was recognised: construct lost, not a decided violation
            ctx.undecided(R3, pw.key + ":" + tag, f"cannot find what is emitted for {what} (expected an `if {p}.args[1] == ...` chain of FunctionCall returns)", pw)
        else:
            ctx.check(got == want, R3, pw.key + ":" + tag, okd, f"{what} is emitted as {got}: must be {want[0]}{want[1]}", pw)
    extra = set(found) - {-1.0, 0.5, "sympy.Rational(1, 2)", "sympy.S.Half"}
    from ..common import exit_exprs as _exits

    n_exits = len(_exits(pw.node))
    if not extra and n_exits != len(found) + (1 if default else 0):
        # the if/elif chain that was walked does not account for every exit of the function (another shape, e.g. a merged conditional
        # return): an exponent special-cased there would go unseen, so silence here proves nothing
        ctx.undecided(R3, pw.key + ":no-other-special-case", f"{n_exits} exits but {len(found)} recognised special cases" + (" and a default" if default else ""), pw)
    else:
      ctx.check(not extra, R3, pw.key + ":no-other-special-case", "no further exponent is special-cased", f"exponents {sorted(map(str, extra))} are special-cased too", pw)


def check_registry(ctx):
    repo = ctx.repo
    arms = _arms(repo, f"{SE}:expression_from_sympy")
    for a in REQUIRED_ARMS:
        ctx.check(a in arms, R4, f"{SE}:expression_from_sympy:arm:{a}", f"arm for {a}", f"expression_from_sympy has no arm for {a}: such nodes are refused (or, for Number, handled by a less specific arm)", f"{repo.module(SE).relpath}:1")
    want = {
        "sympy.Symbol": lambda p: {f"Symbol(str({p}))", f"Symbol({p}.name)", f"Symbol(name=str({p}))"},
        "sympy.Integer": lambda p: {f"int({p})"},
        "sympy.Float": lambda p: {f"float({p})"},
        "sympy.Rational": lambda p: {f"float({p})", f"{p}.p / {p}.q", f"Fraction({p}.p, {p}.q)"},
        "sympy_numbers.ImaginaryUnit": lambda p: {"1j", "complex(0, 1)"},
        "Number": lambda p: {p},
    }
    for ann, forms in want.items():
        fi = arms.get(ann)
        if fi is None:
            continue
        ctx.analysed(fi)
        p = positional_params(fi.node)[0]
        rets = returned_exprs(fi.node)
        ok = len(rets) == 1 and norm(rets[0]) in forms(p)
        ctx.check(ok, R4, fi.key, f"{ann} -> native value", f"the {ann} arm returns {short(rets[0]) if rets else '?'}: not the native value of the node", fi)
    tp = arms.get("tuple")
    if tp is not None:
        ctx.analysed(tp)
        p = positional_params(tp.node)[0]
        rets = returned_exprs(tp.node)
        ok = False
        if len(rets) == 1 and isinstance(rets[0], ast.Call) and dotted(rets[0].func) == "tuple" and isinstance(rets[0].args[0], (ast.GeneratorExp, ast.ListComp)):
            g = rets[0].args[0]
            ok = norm(g.generators[0].iter) == p and not g.generators[0].ifs and norm(g.elt) == f"expression_from_sympy({norm(g.generators[0].target)})"
        ctx.check(ok, R4, tp.key, "argument tuples are converted element by element, order kept", "the tuple arm does not convert every argument in order", tp)
    fn = arms.get("sympy.Function")
    if fn is not None:
        ctx.analysed(fn)
        p = positional_params(fn.node)[0]
        rets = returned_exprs(fn.node)
        ok = len(rets) == 1 and norm(rets[0]) == f"FunctionCall(str({p}.func), expression_from_sympy({p}.args))"
        ctx.check(ok, R4, fn.key, "f(args) -> FunctionCall(str(f), converted args)", f"the Function arm returns {short(rets[0]) if rets else '?'}", fn)


def check_sorting(ctx):
    import re
    import re._parser as sre_parse
    import re._constants as sre_c

    repo = ctx.repo
    # the key is a list whose positions alternate text / number *for every name*, so that two keys are compared position by
    # position like with like; that alternation is what `re.split` with one capturing group gives (text, digits, text, ... with a
    # leading '' for a name that starts with a digit). Runs produced by itertools.groupby have no such alignment: "2theta" starts
    # with a number where "theta_1" starts with text, and comparing the two keys raises TypeError
    nk0 = repo.func(f"{SO}:natural_key")
    for c in body_walk(nk0.node):
        if isinstance(c, ast.Call) and (dotted(c.func) or "").split(".")[-1] == "groupby" and any("isdigit" in norm(x) or "isdecimal" in norm(x) or "isnumeric" in norm(x) for x in list(c.args[1:]) + [k.value for k in c.keywords]):
            ctx.violation(R5, nk0.key + ":construction", f"natural_key splits the name into runs with `{short(c, 80)}`: unlike re.split with a capturing group, the runs of a name that starts with a digit begin with a number while other names begin with text, so the keys are not aligned position by position -- sorting a list that mixes such names compares int with str (TypeError) instead of ordering them", f"{nk0.module.relpath}:{c.lineno}")
            return
    conv = repo.func(f"{SO}:_convert_string_to_int_if_possible")
    ctx.analysed(conv)
    t = positional_params(conv.node)[0]
    rets = returned_exprs(conv.node)
    ok = len(rets) == 1 and isinstance(rets[0], ast.IfExp) and norm(rets[0].test) in (f"{t}.isdigit()", f"{t}.isdecimal()") and norm(rets[0].body) == f"int({t})" and norm(rets[0].orelse) == t
    ctx.check(ok, R5, conv.key, "all-digit groups become integers (compared numerically), other groups stay text", f"digit groups are converted by {short(rets[0]) if rets else '?'}: anything but int(group) (padding, truncation, keeping text) compares embedded numbers as text beyond some width", conv)
    nk = repo.func(f"{SO}:natural_key")
    ctx.analysed(nk)
    s = positional_params(nk.node)[0]
    rets = returned_exprs(nk.node)
    ok = False
    pat = None
    if len(rets) == 1 and isinstance(rets[0], ast.ListComp) and len(rets[0].generators) == 1:
        g = rets[0].generators[0]
        it = g.iter
        if isinstance(it, ast.Call) and dotted(it.func) == "re.split" and len(it.args) == 2 and norm(it.args[1]) == f"{s}.name":
            pat = const_str(it.args[0])
            ok = norm(rets[0].elt) == f"_convert_string_to_int_if_possible({norm(g.target)})" and not g.ifs and count_reversals(rets[0]) == 0
    ctx.check(ok, R5, nk.key + ":construction", "key = [convert(group) for group in re.split(pattern, name)] in order", "natural_key is not the in-order list of converted groups of the symbol's name", nk)
    ok = False
    if pat is not None:
        try:
            parsed = list(sre_parse.parse(pat))
            if len(parsed) == 1 and parsed[0][0] is sre_c.SUBPATTERN:
                inner = list(parsed[0][1][3])
                if len(inner) == 1 and inner[0][0] in (sre_c.MAX_REPEAT,) and inner[0][1][0] == 1 and inner[0][1][1] == sre_c.MAXREPEAT:
                    body = list(inner[0][1][2])
                    ok = len(body) == 1 and body[0][0] is sre_c.IN and list(body[0][1]) == [(sre_c.CATEGORY, sre_c.CATEGORY_DIGIT)]
        except Exception:
            ok = False
    ctx.check(ok, R5, nk.key + ":pattern", "split pattern is one capturing group of one-or-more digits", f"the split pattern {pat!r} is not a single capturing group (\\d+): digit groups are dropped or split", nk)
    rv = repo.func(f"{SO}:natural_key_revlex")
    ctx.analysed(rv)
    s = positional_params(rv.node)[0]
    rets = returned_exprs(rv.node)
    ok = len(rets) == 1 and norm(rets[0]) in (f"list(reversed(natural_key({s})))", f"natural_key({s})[::-1]")
    ctx.check(ok, R5, rv.key, "revlex key = reversed natural key", f"natural_key_revlex returns {short(rets[0]) if rets else '?'}", rv)


def run(ctx):
    from ..lints import check_caches

    check_caches(ctx, "C19-D5 caches", ['circuits.symbolic.sympy_expressions', 'circuits.symbolic.translations', 'circuits.symbolic._sorting', 'circuits.symbolic.expressions'])
    check_refusals(ctx)
    check_dialect(ctx)
    check_special_cases(ctx)
    check_registry(ctx)
    check_sorting(ctx)
    ctx.floor("C19-D1", 3)
    ctx.floor("C19-D2", 20)
    ctx.floor("C19-D3", 11)
    ctx.floor("C19-D4", 20)
    ctx.floor("C19-D5", 4)
