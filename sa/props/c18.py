"""C18 — decomposing a circuit never changes what it does."""
from __future__ import annotations

import ast
from typing import Dict, List, Optional, Tuple

from ..astutil import arg_or_kw, body_walk, const_str, dotted, is_const, norm, positional_params, short, walk_local
from ..cfg import cfg_of
from ..common import check_width_carried, returned_exprs
from ..flow import Defs
from ..gatetable import gate_table
from ..orient import Orient

EXPLANATION = (
    "Structural necessary conditions: (D1) decompose_operation returns [operation] for an empty rule list, applies "
    "the first rule's production only under its predicate (else keeps the operation), and feeds every produced "
    "operation to the *remaining* rules, flattening in order; decompose_operations maps that over the operations "
    "in order with the full rule list; (D2) decompose_orquestra_circuit carries the register width; (D3) PHASE: for "
    "each bundled rule the emitted gate list is compared, factor by factor and argument position by argument "
    "position, with the target gate's matrix factory; when the factory is that product times/divided by a scalar the "
    "rule drops a phase, which is only sound if the rule does not also match controlled gates (or compensates); (D4) "
    "the production returns the factors in circuit order (reverse of matrix order), re-applies exactly the "
    "operation's own control count and qubit tuple, and passes the rule's angles through unmodified. "
    "(D4n) a rule's predicate answers False for non-gate operations instead of dereferencing `.gate`; (D4a) the angles reach the emitted gates unmodified (no element-wise transformation such as a reduction modulo 2*pi)."
    ' Round 4: the applied rule is taken from the front of the list; an unwrap through a helper that walks .wrapped_gate without asking for ControlledGate is an undiscriminating unwrap.'
    " Round 5: (D5) no cache handing out a one-shot iterator; angle reductions inside the target's matrix must be periods of it (a sign under a control is a relative phase)."
    ' Round 7: every list bound to the emitted-gates name is judged as a factorisation (D4).'
)
RULE_TEXT = "instances = branches/comprehensions of the two chaining functions, the width construction, and per bundled rule: factor correspondences, phase scalar, control handling, ordering; distinct by (rule, construct)"
ASSUMPTIONS = [
    "decided for the bundled rule on an uncontrolled target: target(angles) = s * product(emitted factors) with |s| = 1 for all real angles, in the exponential-polynomial normal form of the gate tables (C02's engine); declined: the same identity under controls beyond the relative-phase argument of the PHASE rule, and for rules whose production is not a fixed list of built-in gate calls",
]

DEC = "decompositions._decomposition"
ORQ = "decompositions._orquestra_decompositions"
R1 = "C18-D1 rule-chaining"
R2 = "C18-D2 width-carried"
R3 = "C18-D3 phase-under-control"
R4 = "C18-D4 production-structure"


def check_chaining(ctx):
    repo = ctx.repo
    fi = repo.func(f"{DEC}:decompose_operation")
    ctx.analysed(fi)
    ps = positional_params(fi.node)
    op, rules = ps[0], ps[1]
    cfg = cfg_of(fi.node)
    d = Defs(fi.node)
    # empty rules -> [operation]
    empties = [n for n in cfg.nodes if n.kind == "test" and isinstance(n.ast, ast.If) and norm(n.ast.test) in (f"not {rules}", f"len({rules}) == 0", f"{rules} == []")]
    ok = False
    if empties:
        tg = [x for x, lab in empties[0].succ if lab == "true"]
        ok = bool(tg) and isinstance(tg[0].ast, ast.Return) and norm(tg[0].ast.value) == f"[{op}]"
    ctx.check(ok, R1, fi.key + ":no-rules", "no rules -> the operation itself", "with an empty rule list the operation is not returned unchanged", fi)
    # current rule / remaining rules
    cur = rem = None
    for n in body_walk(fi.node):
        if isinstance(n, ast.Assign) and isinstance(n.targets[0], ast.Tuple) and norm(n.value) == rules and len(n.targets[0].elts) == 2 and isinstance(n.targets[0].elts[1], ast.Starred):
            cur, rem = norm(n.targets[0].elts[0]), norm(n.targets[0].elts[1].value)
    if cur is None:
        # the split exists but takes the rule from the wrong end: `*remaining, current = rules`, `rules[-1]` / `rules[:-1]`, rules.pop()
        for n in body_walk(fi.node):
            wrong = None
            if isinstance(n, ast.Assign) and isinstance(n.targets[0], ast.Tuple) and norm(n.value) == rules and len(n.targets[0].elts) == 2 and isinstance(n.targets[0].elts[0], ast.Starred):
                wrong = n
            elif isinstance(n, ast.Subscript) and norm(n.value) == rules and norm(n.slice) in ("-1", ":-1"):
                wrong = n
            elif isinstance(n, ast.Call) and norm(n.func) == f"{rules}.pop" and not n.args:
                wrong = n
            if wrong is not None:
                ctx.violation(R1, fi.key + ":split", f"`{short(wrong)}` takes the rule to apply from the end of the list: the rules are applied last-to-first, not in the order given", f"{fi.module.relpath}:{wrong.lineno}")
                return
        ctx.undecided(R1, fi.key + ":split", f"cannot find `current, *remaining = {rules}`", fi)
        return
    # production only under predicate
    sel = None
    for n in body_walk(fi.node):
        if isinstance(n, ast.IfExp) and f"{cur}.predicate" in norm(n.test):
            sel = n
    ok_sel = sel is not None and norm(sel.test) == f"{cur}.predicate({op})" and norm(sel.body) == f"{cur}.production({op})" and norm(sel.orelse) == f"[{op}]"
    if sel is None:
        # statement form
        for n in body_walk(fi.node):
            if isinstance(n, ast.If) and norm(n.test) == f"{cur}.predicate({op})":
                ok_sel = any(f"{cur}.production({op})" in norm(s) for s in n.body) and any(f"[{op}]" in norm(s) for s in n.orelse)
                sel = n
    # the distributed spelling of the same thing: `[d for x in rule.production(op) for d in decompose_operation(x, rest)] if
    # rule.predicate(op) else decompose_operation(op, rest)` (flattening over the one-element list [op] written out)
    from ..common import exit_exprs

    alt_ok = False
    if not ok_sel:
        for n in list(body_walk(fi.node)):
            t = n.test if isinstance(n, (ast.IfExp, ast.If)) else None
            if t is None or norm(t) != f"{cur}.predicate({op})":
                continue
            if isinstance(n, ast.IfExp):
                yes, no = [n.body], [n.orelse]
            else:
                yes = [st.value for st in n.body if isinstance(st, ast.Return)]
                tail = n.orelse or [st for st in fi.node.body if False]
                no = [st.value for st in n.orelse if isinstance(st, ast.Return)]
                if not no:
                    # `if pred: return A` followed by `return B`
                    blk = None
                    for owner in ast.walk(fi.node):
                        for fld in ("body", "orelse"):
                            b = getattr(owner, fld, None)
                            if isinstance(b, list) and n in b:
                                blk = b
                    if blk is not None:
                        after = blk[blk.index(n) + 1:]
                        no = [st.value for st in after if isinstance(st, ast.Return)][:1]
            def resolve(e):
                if isinstance(e, ast.Name):
                    ds = [x for x in d.defs.get(e.id, []) if isinstance(x, ast.AST)]
                    return ds[0] if len(ds) == 1 else e
                return e
            if len(yes) == 1 and len(no) == 1:
                y, nn = resolve(yes[0]), resolve(no[0])
                y_ok = isinstance(y, ast.ListComp) and len(y.generators) == 2 and norm(y.generators[0].iter) == f"{cur}.production({op})" and isinstance(y.generators[1].iter, ast.Call) and dotted(y.generators[1].iter.func) == fi.name and [norm(a) for a in y.generators[1].iter.args] == [norm(y.generators[0].target), rem] and norm(y.elt) == norm(y.generators[1].target) and not y.generators[0].ifs and not y.generators[1].ifs
                n_ok = isinstance(nn, ast.Call) and dotted(nn.func) == fi.name and [norm(a) for a in nn.args] == [op, rem]
                alt_ok = bool(y_ok and n_ok)
    if alt_ok:
        ctx.ok(R1, fi.key + ":predicate", "production(op) if predicate(op) else the operation itself", fi)
        ctx.ok(R1, fi.key + ":remaining-rules", "each produced operation (or the kept one) is decomposed with the remaining rules, order preserved", fi)
    else:
        _check_chaining_tail(ctx, fi, repo, d, op, rem, cur, sel, ok_sel)
    _check_decompose_operations(ctx, repo)


def _check_chaining_tail(ctx, fi, repo, d, op, rem, cur, sel, ok_sel):
    ctx.check(bool(ok_sel), R1, fi.key + ":predicate", "production(op) if predicate(op) else [op]", f"the current rule is not applied exactly when its predicate holds, keeping the operation otherwise ({short(sel) if sel is not None else 'no selection found'})", fi)
    # every path's result is flattened through decompose_operation(x, remaining)
    rets = returned_exprs(fi.node)
    rec = [r for r in rets if isinstance(r, ast.ListComp)]
    others = [r for r in rets if not isinstance(r, ast.ListComp) and norm(r) != f"[{op}]"]
    ok_rec = False
    detail = "no flattening comprehension over the produced operations"
    if len(rec) == 1 and not others:
        c = rec[0]
        if len(c.generators) == 2:
            g0, g1 = c.generators
            src_ok = sel is not None and (isinstance(g0.iter, ast.Name) and any(v is sel for v in d.defs.get(g0.iter.id, [])) or g0.iter is sel)
            inner = g1.iter
            inner_ok = isinstance(inner, ast.Call) and dotted(inner.func) == fi.name and len(inner.args) == 2 and norm(inner.args[0]) == norm(g0.target) and norm(inner.args[1]) == rem
            elt_ok = norm(c.elt) == norm(g1.target) and not g0.ifs and not g1.ifs
            ok_rec = bool(src_ok and inner_ok and elt_ok)
            detail = f"comprehension {short(c)}: source-is-selection={bool(src_ok)}, recursion-with-remaining-rules={inner_ok}, element-order={elt_ok}"
    elif others:
        detail = f"a path returns {short(others[0])} without passing it to the remaining rules: a later rule is never applied to what an earlier rule produced"
    ctx.check(ok_rec, R1, fi.key + ":remaining-rules", "each produced operation is decomposed with the remaining rules, order preserved", detail, fi)


def _check_decompose_operations(ctx, repo):
    # decompose_operations
    fo = repo.func(f"{DEC}:decompose_operations")
    ctx.analysed(fo)
    po = positional_params(fo.node)
    rets = returned_exprs(fo.node)
    ok = False
    if len(rets) == 1 and isinstance(rets[0], ast.ListComp) and len(rets[0].generators) == 2:
        g0, g1 = rets[0].generators
        ok = norm(g0.iter) == po[0] and isinstance(g1.iter, ast.Call) and dotted(g1.iter.func) == "decompose_operation" and [norm(a) for a in g1.iter.args] == [norm(g0.target), po[1]] and norm(rets[0].elt) == norm(g1.target) and not g0.ifs and not g1.ifs
    ctx.check(ok, R1, fo.key, "[d for op in operations for d in decompose_operation(op, rules)]", "decompose_operations does not flatten, in order, the decomposition of every operation with the full rule list", fo)


def _matrix_product(expr: ast.AST) -> Tuple[Optional[List[ast.Call]], Optional[ast.AST]]:
    """(factors in matrix order, scalar) for ``simplify(P / s)`` / ``s * P`` / ``P``."""
    e = expr
    while isinstance(e, ast.Call) and (dotted(e.func) or "").split(".")[-1] in ("simplify", "nsimplify", "expand", "trigsimp") and e.args:
        e = e.args[0]
    scalar = None
    if isinstance(e, ast.BinOp) and isinstance(e.op, ast.Div):
        e, scalar = e.left, e.right
    factors: List[ast.Call] = []

    def flat(x) -> bool:
        if isinstance(x, ast.BinOp) and isinstance(x.op, (ast.Mult, ast.MatMult)):
            return flat(x.left) and flat(x.right)
        if isinstance(x, ast.Call) and isinstance(x.func, ast.Name) and x.func.id.endswith("_matrix"):
            factors.append(x)
            return True
        return False

    if isinstance(e, ast.BinOp) and isinstance(e.op, ast.Mult) and not flat(e):
        # scalar * product
        factors.clear()
        if flat(e.right):
            scalar = e.left
        else:
            factors.clear()
            if flat(e.left):
                scalar = e.right
            else:
                return None, None
        return factors, scalar
    if not factors and not flat(e):
        return None, None
    return factors, scalar


def lname_all(d: Defs, emitted) -> set:
    return {k for k, defs in d.defs.items() if emitted in defs}


def check_rules(ctx):
    repo = ctx.repo
    table = gate_table(repo)
    by_factory = {g.factory.name: g for g in table if g.factory is not None}
    by_name = {g.name: g for g in table}
    mod = repo.module(ORQ)
    rule_classes = [c for c in mod.classes.values() if "production" in c.methods and "predicate" in c.methods]
    if not rule_classes:
        ctx.undecided(R3, ORQ, "no decomposition rule class found", "")
        return
    ctx.extra["rules_analysed"] = [c.key for c in rule_classes]
    for ci in rule_classes:
        pred, prod = ci.methods["predicate"], ci.methods["production"]
        ctx.analysed(pred, prod)
        opv = positional_params(pred.node)[1]
        # target gate names and whether controlled gates are accepted
        names = [const_str(c.comparators[0]) for c in walk_local(pred.node) if isinstance(c, ast.Compare) and norm(c.left).endswith(".name") and isinstance(c.ops[0], ast.Eq)]
        names = sorted({n for n in names if n})
        accepts_controlled = any(isinstance(c, ast.Call) and dotted(c.func) == "isinstance" and "ControlledGate" in norm(c.args[1]) for c in walk_local(pred.node))
        # wrapper discrimination: every look through `.wrapped_gate` must be under an isinstance(..., ControlledGate)
        # test of the same object — Dagger, Power and Exponential have a wrapped_gate too, and the production only
        # knows how to re-apply a control count
        pd = Defs(pred.node)

        def _exp(e):
            hops = 0
            while isinstance(e, ast.Name) and hops < 3:
                ds = [x for x in pd.defs.get(e.id, []) if isinstance(x, ast.AST)]
                if len(ds) != 1:
                    break
                e, hops = ds[0], hops + 1
            return norm(e)

        unwraps = []
        for n in walk_local(pred.node):
            if isinstance(n, ast.Attribute) and n.attr == "wrapped_gate":
                unwraps.append((n, _exp(n.value)))
            if isinstance(n, ast.Call) and dotted(n.func) == "getattr" and len(n.args) >= 2 and const_str(n.args[1]) == "wrapped_gate":
                unwraps.append((n, None))
        # ... also through a helper: a called repository function that itself walks `.wrapped_gate` without asking for a
        # ControlledGate (e.g. one that strips every modifier) is an undiscriminating unwrap of its argument
        for n in walk_local(pred.node):
            if isinstance(n, ast.Call) and n.args:
                try:
                    targets, _ = repo.resolve_call(pred, n)
                except Exception:
                    targets = []
                for t in targets[:2]:
                    if t.cls is not None and t.cls.name in ("ControlledGate",):
                        continue
                    reads = [x for x in walk_local(t.node) if (isinstance(x, ast.Attribute) and x.attr == "wrapped_gate") or (isinstance(x, ast.Call) and dotted(x.func) in ("getattr", "hasattr") and len(x.args) >= 2 and const_str(x.args[1]) == "wrapped_gate")]
                    asks = any(isinstance(x, ast.Call) and dotted(x.func) == "isinstance" and len(x.args) == 2 and "ControlledGate" in norm(x.args[1]) for x in walk_local(t.node))
                    if reads and not asks:
                        unwraps.append((n, None))
        guarded_bases = set()
        for n in walk_local(pred.node):
            if isinstance(n, ast.BoolOp) and isinstance(n.op, ast.And):
                for v in n.values:
                    if isinstance(v, ast.Call) and dotted(v.func) == "isinstance" and len(v.args) == 2 and norm(v.args[1]).split(".")[-1] == "ControlledGate":
                        guarded_bases.add(_exp(v.args[0]))
            if isinstance(n, ast.If) and isinstance(n.test, ast.Call) and dotted(n.test.func) == "isinstance" and len(n.test.args) == 2 and norm(n.test.args[1]).split(".")[-1] == "ControlledGate":
                guarded_bases.add(_exp(n.test.args[0]))
        # "operations no rule applies to are kept unchanged": a circuit may hold non-gate operations (MultiPhaseOperation,
        # ResetOperation), which have no `.gate`; the predicate is asked about every operation of the circuit, so it has to
        # answer False for them instead of raising
        op_param = positional_params(pred.node)[1] if len(positional_params(pred.node)) > 1 else None
        gate_reads = [n for n in walk_local(pred.node) if isinstance(n, ast.Attribute) and n.attr == "gate" and isinstance(n.value, ast.Name) and n.value.id == op_param]
        type_guard = any(isinstance(n, ast.Call) and dotted(n.func) == "isinstance" and len(n.args) == 2 and norm(n.args[0]) == op_param and "GateOperation" in norm(n.args[1]) for n in walk_local(pred.node)) or any(isinstance(n, ast.Call) and dotted(n.func) in ("hasattr", "getattr") and len(n.args) >= 2 and norm(n.args[0]) == op_param and const_str(n.args[1]) == "gate" for n in walk_local(pred.node))
        ctx.check(not gate_reads or type_guard, R4, ci.key + ":non-gate-operations", "the predicate answers False for operations that are not gate operations", f"the predicate reads `{op_param}.gate` without testing that the operation is a GateOperation: for a circuit containing a MultiPhaseOperation or ResetOperation, decomposition raises AttributeError instead of keeping that operation unchanged", pred)
        loose = [u for u, base in unwraps if base is None or base not in guarded_bases]
        ctx.check(not loose, R4, ci.key + ":wrapper-discrimination", "the predicate looks through a wrapper only after testing that it is a ControlledGate", f"the predicate reads `{short(loose[0]) if loose else ''}` without first testing isinstance(..., ControlledGate): Dagger, Power and Exponential wrappers have a wrapped_gate too, so e.g. {names[0] if names else 'the gate'}.dagger is matched and replaced by the decomposition of the un-modified gate", f"{pred.module.relpath}:{loose[0].lineno}" if loose else pred)
        if loose:
            accepts_controlled = True
        if len(names) != 1 or names[0] not in by_name:
            # a name test by membership in a collection of names: resolve the collection (module-level tuple / literal) and see
            # whether it reaches beyond one built-in gate
            coll = []
            for n in walk_local(pred.node):
                if isinstance(n, ast.Compare) and len(n.ops) == 1 and isinstance(n.ops[0], ast.In) and norm(n.left).endswith(".name"):
                    c = n.comparators[0]
                    if isinstance(c, ast.Name):
                        for st in pred.module.tree.body:
                            if isinstance(st, ast.Assign) and any(isinstance(t, ast.Name) and t.id == c.id for t in st.targets):
                                c = st.value
                    if isinstance(c, (ast.Tuple, ast.List, ast.Set)):
                        coll = list(c.elts)
            lits = [const_str(e) for e in coll if const_str(e) is not None]
            others = [e for e in coll if const_str(e) is None]
            if coll and len(lits) == 1 and lits[0] in by_name and others:
                # one built-in name plus composed names (f"U3_{DAGGER_GATE_NAME}" ...): the rule also matches modifier wrappers
                # of its target. Their matrices are not the target's: the dagger needs the factors negated *and* in reverse
                # order, a power / exponential is no product of the same three rotations at all
                prod_src = norm(prod.node)
                order_aware = any(isinstance(n, (ast.If, ast.IfExp)) and ".name" in norm(n.test) and any(isinstance(x, ast.Call) and (dotted(x.func) or "").split(".")[-1] in ("reversed",) or (isinstance(x, ast.Subscript) and "::-1" in norm(x)) for b in ([n.body] if isinstance(n, ast.IfExp) else n.body) for x in ast.walk(b)) for n in walk_local(prod.node))
                if order_aware:
                    ctx.undecided(R4, ci.key + ":wrapper-names", f"the rule also matches {[short(e) for e in others]} and the production treats that case separately: not analysed", pred)
                else:
                    ctx.violation(R4, ci.key + ":wrapper-names", f"the predicate matches gates named {[short(e) for e in others]} besides {lits[0]}: those are modifier wrappers (e.g. the dagger) of the target, whose matrix is not the target's; the production emits the same factor order for them (at most with changed angles), but the inverse of RZ(a)RY(b)RZ(c) is RZ(-c)RY(-b)RZ(-a) -- reversed order", pred)
                names = [lits[0]]
            else:
                ctx.undecided(R3, ci.key, f"cannot identify the single built-in gate this rule targets (names {names})", ci)
                continue
        target = by_name[names[0]]
        # a plain-gate disjunct must not be satisfiable by a wrapper whose *name* merely matches
        d = Defs(prod.node)
        pv = positional_params(prod.node)[1]
        # parameter names unpacked from operation.params
        unpack = None
        for n in body_walk(prod.node):
            if isinstance(n, ast.Assign) and isinstance(n.targets[0], ast.Tuple) and norm(n.value) in (f"{pv}.params", f"{pv}.gate.params"):
                unpack = [norm(e) for e in n.targets[0].elts]
        if unpack is None:
            # the angles reach the emitted gates through something other than a plain unpacking of operation.params:
            # an element-wise transformation (map / comprehension / call) changes the gate that is emitted
            for n in body_walk(prod.node):
                if not (isinstance(n, ast.Assign) and isinstance(n.targets[0], ast.Tuple)):
                    continue
                v = n.value
                srcs = (f"{pv}.params", f"{pv}.gate.params")
                while isinstance(v, ast.Call) and dotted(v.func) in ("tuple", "list") and len(v.args) == 1:
                    v = v.args[0]
                if norm(v) in srcs:
                    unpack = [norm(e) for e in n.targets[0].elts]
                    break
                fn = None
                if isinstance(v, ast.Call) and dotted(v.func) == "map" and len(v.args) == 2 and norm(v.args[1]) in srcs:
                    fn = short(v.args[0])
                elif isinstance(v, (ast.ListComp, ast.GeneratorExp)) and len(v.generators) == 1 and norm(v.generators[0].iter) in srcs and norm(v.elt) != norm(v.generators[0].target):
                    fn = short(v.elt)
                if fn is not None and fn not in ("sympy.sympify", "sympify"):
                    ctx.violation(R4, ci.key + ":angles-unmodified", f"the rule's angles are passed through `{fn}` before the replacement gates are built: the emitted rotations are no longer the target gate's own angles (any reduction modulo a period shorter than the rotation gates' 4*pi period flips a sign, which under a control is a relative phase)", f"{prod.module.relpath}:{n.lineno}")
                    unpack = [norm(e) for e in n.targets[0].elts]
                    break
        lists = [v for defs in d.defs.values() for v in defs if isinstance(v, ast.List) and v.elts and all(isinstance(e, ast.Call) and isinstance(e.func, ast.Name) and e.func.id in {g.ident for g in table} for e in v.elts)]
        alt_lists = []
        if unpack is not None and len(lists) > 1 and target.factory is not None:
            # several gate lists bound to the same name: one per condition (a shortcut for special angles). Each of them is what the rule
            # emits on some path, so each has to be the full factorisation
            names_of = {id(v): k for k, defs in d.defs.items() for v in defs}
            if len({names_of.get(id(v)) for v in lists}) == 1:
                alt_lists = lists[1:]
                lists = lists[:1]
        if unpack is None or len(lists) != 1 or target.factory is None:
            ctx.undecided(R3, ci.key, "production has an unrecognised shape (expected `a, b, c = operation.params` and one list of built-in gate calls)", prod)
            continue
        emitted = lists[0]
        fac = target.factory
        frets = returned_exprs(fac.node)
        factors, scalar = _matrix_product(frets[0]) if len(frets) == 1 else (None, None)
        if not factors:
            ctx.undecided(R3, ci.key, f"matrix factory {fac.name} is not a product of other gate matrices", fac)
            continue
        fparams = positional_params(fac.node)
        # factor correspondence (gate identity and argument *position*)
        want = []
        for f in factors:
            g = by_factory.get(f.func.id)
            want.append((g.ident if g else f.func.id, tuple(fparams.index(norm(a)) if norm(a) in fparams else None for a in f.args)))
        got = []
        for e in emitted.elts:
            got.append((e.func.id, tuple(unpack.index(norm(a)) if norm(a) in unpack else None for a in e.args)))
        where = f"{prod.module.relpath}:{emitted.lineno}"
        ok_corr = got == want and all(None not in idx for _, idx in got)
        for alt in alt_lists:
            got_alt = [(e.func.id, tuple(unpack.index(norm(a)) if norm(a) in unpack else None for a in e.args)) for e in alt.elts]
            ctx.check(got_alt == want, R4, ci.key + f":factors:alternative:{short(alt, 40)}", "the alternative list is the same factorisation", f"under some condition the rule emits {short(alt, 80)} = {got_alt} instead of the factors {want} of {fac.name}: a factor that is +/- identity for special angles is a *relative* phase once the controls are re-applied (controlled-RY(2 pi) is a Z on the control), so the decomposed controlled gate acts differently", f"{prod.module.relpath}:{alt.lineno}")
        ctx.check(ok_corr, R4, ci.key + ":factors", f"emitted gates {got} are the factors of {fac.name} in matrix order with the same parameter positions", f"emitted gates {[(short(e, 30)) for e in emitted.elts]} -> {got} do not match the factors {want} of {fac.name} (gate, parameter position): angles are reordered, altered or wrapped before use", where)
        # ordering of the returned sequence
        rets = returned_exprs(prod.node)
        lname = [k for k, defs in d.defs.items() if emitted in defs]
        o = Orient(prod.node, lambda e: isinstance(e, ast.Name) and e.id in lname)
        par = o.parity(rets[0]) if len(rets) == 1 else None
        if par is None:
            ctx.undecided(R4, ci.key + ":order", f"cannot relate the returned sequence {short(rets[0]) if rets else None} to the emitted gate list", prod)
        else:
            ctx.check(par == 1, R4, ci.key + ":order", "returned in circuit order = reverse of matrix order", f"the production returns the factors in matrix order (parity {par}): the right-most matrix factor must be applied first", prod)
        # controls and qubits re-applied
        ctrl = [c for c in ast.walk(prod.node) if isinstance(c, ast.Call) and isinstance(c.func, ast.Attribute) and c.func.attr == "controlled"]
        # variables that stand for "one emitted factor": parameters of nested helpers and targets of
        # comprehensions/loops over the emitted list
        factor_vars = set()
        for n in ast.walk(prod.node):
            if isinstance(n, (ast.FunctionDef, ast.Lambda)) and n is not prod.node:
                factor_vars |= {a.arg for a in n.args.args}
            if isinstance(n, ast.comprehension) and isinstance(n.iter, ast.Name) and n.iter.id in lname_all(d, emitted):
                factor_vars |= {x.id for x in ast.walk(n.target) if isinstance(x, ast.Name)}
            if isinstance(n, ast.For) and isinstance(n.iter, ast.Name) and n.iter.id in lname_all(d, emitted):
                factor_vars |= {x.id for x in ast.walk(n.target) if isinstance(x, ast.Name)}
        on_factors = [c for c in ctrl if isinstance(c.func.value, ast.Name) and c.func.value.id in factor_vars]
        own = [c for c in on_factors if len(c.args) == 1 and norm(c.args[0]) == f"{pv}.gate.num_control_qubits"]
        ok_ctrl = (not accepts_controlled) or (len(own) >= 1 and len(own) == len(on_factors))
        bad_c = [c for c in on_factors if c not in own]
        ctx.check(ok_ctrl, R4, ci.key + ":controls", "the operation's own number of controls is re-applied to every factor", f"controlled factors are built with {short(bad_c[0].args[0]) if bad_c and bad_c[0].args else None} controls, not the operation's own control count", prod)
        applied = [c for c in ast.walk(prod.node) if isinstance(c, ast.Call) and len(c.args) == 1 and isinstance(c.args[0], ast.Starred) and norm(c.args[0].value) == f"{pv}.qubit_indices"]
        ctx.check(len(applied) >= 1, R4, ci.key + ":qubits", "every factor acts on the operation's own qubit tuple", "the emitted gates are not applied to the operation's own qubit indices", prod)
        if accepts_controlled:
            # the controlled disjunct must test the wrapped gate's name, the plain one the gate's own
            wrapped_ok = any(isinstance(c, ast.Compare) and norm(c.left) == f"{opv}.gate.wrapped_gate.name" for c in walk_local(pred.node))
            ctx.check(wrapped_ok, R4, ci.key + ":controlled-target", "controlled disjunct tests the wrapped gate's name", "the controlled disjunct does not test the wrapped gate's name", pred)
        # ---- exact identity: (product of the emitted gates' own matrices, in matrix order) * conj-transpose of the target's
        # matrix is a scalar matrix s*1 with |s| = 1 for *all* real angles -- decided in the exponential-polynomial normal form
        # the gate tables fold into (C02's engine; no repo code is run, no solver is called)
        try:
            from ..exppoly import EP, Mat, Undecided
            from .c02 import _fold

            vars_ = [EP.var(p_) for p_ in fparams]
            tgt_m = _fold(ctx, target, vars_, reduction_rule=R3)
            prod_m = None
            for e_ in emitted.elts:  # emitted list is in matrix order (checked by :factors / :order)
                ge = by_name.get(e_.func.id)
                args_ = [EP.var(fparams[unpack.index(norm(a))]) for a in e_.args]
                m_ = _fold(ctx, ge, args_, reduction_rule=R3)
                prod_m = m_ if prod_m is None else prod_m * m_
            ratio = tgt_m * prod_m.adjoint()
            dim = ratio.shape[0]
            offdiag = all(ratio.rows[i][j].is_zero() for i in range(dim) for j in range(dim) if i != j)
            same = all(ratio.rows[i][i] == ratio.rows[0][0] for i in range(dim))
            s_ = ratio.rows[0][0]
            unit = (s_ * s_.conj()) == EP.const(__import__("sa.exppoly", fromlist=["K1"]).K1)
            ctx.check(offdiag and same and unit, R3, ci.key + ":exact-up-to-phase", f"{target.ident}(angles) = s * (emitted factors) for all real angles, s = {s_!r}, |s| = 1", f"the emitted sequence does not equal {target.ident} up to one scalar of modulus 1 for all real angles: target * (product)^dagger has off-diagonal zero={offdiag}, equal diagonal={same}, unit modulus={unit}", where)
            ctx.extra["u3_phase_normal_form"] = repr(s_)
        except Exception as e_:  # the fold left the closed-form fragment: not decided here (C02 reports that)
            ctx.info(R3, ci.key + ":exact-up-to-phase", f"exact identity not evaluated: {type(e_).__name__}: {e_}", prod)
        # ---- PHASE
        drops = scalar is not None and not is_const(scalar, 1)
        key = ci.key + ":controlled-phase"
        if not drops:
            ctx.ok(R3, key, f"{fac.name} equals the product of the emitted factors: no phase is dropped", fac)
        elif not accepts_controlled:
            ctx.ok(R3, key, f"the rule drops the scalar {short(scalar)} but never matches controlled gates: a global phase only", pred)
        else:
            extra = [c for c in ast.walk(prod.node) if isinstance(c, ast.Call) and isinstance(c.func, ast.Name) and c.func.id in ("PHASE", "RZ", "Z", "S", "T") and c not in emitted.elts]
            if extra:
                ctx.ok(R3, key, "a compensating phase-type gate is emitted in the controlled case (angle not verified)", prod)
                ctx.info(R3, key, "compensation present, angle not verified", prod)
            else:
                ctx.violation(R3, key, f"{fac.name} = (product of the emitted factors) / {short(scalar)}: the rule drops that scalar. It also matches controlled {target.name} gates and emits nothing but the controlled factors, so under a control the dropped scalar becomes a relative phase between the control subspaces: the decomposed circuit differs from the original by more than a global phase whenever the scalar is not 1", prod)


def run(ctx):
    from ..lints import check_caches

    check_caches(ctx, "C18-D5 caches", ['decompositions._decomposition', 'decompositions._orquestra_decompositions'])
    check_chaining(ctx)
    check_width_carried(ctx, R2, ctx.repo.func(f"{ORQ}:decompose_orquestra_circuit"), ["circuit.n_qubits", "circuit._n_qubits"])
    fi = ctx.repo.func(f"{ORQ}:decompose_orquestra_circuit")
    calls = [c for c in body_walk(fi.node) if isinstance(c, ast.Call) and dotted(c.func) == "decompose_operations"]
    ps = positional_params(fi.node)
    ok = len(calls) == 1 and [norm(a) for a in calls[0].args] == [f"{ps[0]}.operations", ps[1]]
    ctx.check(ok, R2, fi.key + ":operations", "decomposes circuit.operations with the given rules", "the circuit's operations are not passed, in order, with the caller's rule list", fi)
    check_rules(ctx)
    ctx.floor("C18-D1", 4)
    ctx.floor("C18-D2", 2)
    ctx.floor("C18-D3", 1)
    ctx.floor("C18-D4", 6)
