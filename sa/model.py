"""Program model of /repo/src/orquestra/quantum built from source only.

Parses every module once and offers: symbol tables with import resolution, classes with
bases / MRO / dataclass fields / decorators, functions (top-level, methods, nested) by
qualified name, singledispatch registries and a call resolver (lexical scope, ``self.m``
through the MRO plus overriding subclasses, module attributes, class-hierarchy analysis
by method name for untyped receivers).
"""
from __future__ import annotations

import ast
import os
from dataclasses import dataclass, field
from typing import Dict, Iterable, List, Optional, Sequence, Tuple

from .astutil import FUNC_NODES, decorator_names, dotted, norm, walk_local

PKG = "orquestra.quantum"
PKG_DIR = os.path.join("src", "orquestra", "quantum")

# modules parsed but not subjected to rules (test-case tables and contract scripts)
EXCLUDED_FROM_RULES = (
    "testing.test_cases_for_backend_tests",
    "testing.generate_cases_for_backend_tests",
)


class AnchorMissing(Exception):
    """An anchored module/class/function is not where the rules expect it."""


@dataclass
class ImportRef:
    module: Optional[str]  # short module name inside the package, or None if external
    symbol: Optional[str]  # imported symbol, None when the module itself is imported
    external: Optional[str] = None  # dotted external name ("numpy", "sympy.Matrix")


@dataclass
class FuncInfo:
    module: "Module"
    cls: Optional["ClassInfo"]
    name: str
    qualname: str
    node: ast.AST
    parent_func: Optional["FuncInfo"] = None

    @property
    def key(self) -> str:
        return f"{self.module.name}:{self.qualname}"

    @property
    def where(self) -> str:
        return f"{self.module.relpath}:{self.node.lineno}"

    @property
    def decorators(self) -> List[str]:
        return decorator_names(self.node)

    @property
    def is_property(self) -> bool:
        return any(d == "property" or d.endswith(".setter") for d in self.decorators)

    @property
    def is_static(self) -> bool:
        return "staticmethod" in self.decorators

    @property
    def is_classmethod(self) -> bool:
        return "classmethod" in self.decorators

    def __hash__(self):
        return hash(self.key)

    def __eq__(self, other):
        return isinstance(other, FuncInfo) and other.key == self.key

    def __repr__(self):
        return f"<Func {self.key}>"


@dataclass
class ClassInfo:
    module: "Module"
    name: str
    node: ast.ClassDef
    methods: Dict[str, FuncInfo] = field(default_factory=dict)
    class_assigns: Dict[str, ast.AST] = field(default_factory=dict)

    @property
    def key(self) -> str:
        return f"{self.module.name}:{self.name}"

    @property
    def where(self) -> str:
        return f"{self.module.relpath}:{self.node.lineno}"

    @property
    def decorators(self) -> List[str]:
        return decorator_names(self.node)

    @property
    def is_dataclass(self) -> bool:
        return any(d.split(".")[-1] == "dataclass" for d in self.decorators)

    @property
    def is_frozen(self) -> bool:
        for d in self.node.decorator_list:
            if isinstance(d, ast.Call) and (dotted(d.func) or "").split(".")[-1] == "dataclass":
                for kw in d.keywords:
                    if kw.arg == "frozen" and isinstance(kw.value, ast.Constant):
                        return bool(kw.value.value)
        return False

    @property
    def fields(self) -> List[Tuple[str, Optional[ast.AST], Optional[ast.AST]]]:
        """Dataclass-style fields: annotated class-level names, in order."""
        out = []
        for stmt in self.node.body:
            if isinstance(stmt, ast.AnnAssign) and isinstance(stmt.target, ast.Name):
                out.append((stmt.target.id, stmt.annotation, stmt.value))
        return out

    @property
    def field_names(self) -> List[str]:
        return [f[0] for f in self.fields]

    def __hash__(self):
        return hash(self.key)

    def __eq__(self, other):
        return isinstance(other, ClassInfo) and other.key == self.key

    def __repr__(self):
        return f"<Class {self.key}>"


@dataclass
class Module:
    name: str  # short dotted name inside the package ("circuits._circuit", "utils")
    path: str
    relpath: str
    source: str
    tree: ast.Module
    is_package: bool
    functions: Dict[str, FuncInfo] = field(default_factory=dict)  # by qualname
    classes: Dict[str, ClassInfo] = field(default_factory=dict)
    imports: Dict[str, ImportRef] = field(default_factory=dict)
    star_imports: List[str] = field(default_factory=list)
    assigns: Dict[str, ast.AST] = field(default_factory=dict)  # top-level NAME = value

    @property
    def package(self) -> str:
        if self.is_package:
            return self.name
        return self.name.rsplit(".", 1)[0] if "." in self.name else ""

    def __repr__(self):
        return f"<Module {self.name}>"


class Repo:
    def __init__(self, root: str = "/repo", overrides: Optional[Dict[str, str]] = None, view: str = "live"):
        """``overrides`` maps paths relative to the repo root to replacement source text
        (used by the self-test to analyse variants without touching the disk)."""
        self.root = os.path.abspath(root)
        self.overrides = dict(overrides or {})
        self.view = view
        self.pkg_dir = os.path.join(self.root, PKG_DIR)
        if not os.path.isdir(self.pkg_dir):
            raise AnchorMissing(f"package directory {self.pkg_dir} not found")
        self.modules: Dict[str, Module] = {}
        self.parse_errors: List[str] = []
        self.canon_inlined: Dict[str, List[str]] = {}
        self.equivalent_to_reference: Dict[str, List[str]] = {}
        self._load()
        self._index()

    # ------------------------------------------------------------------ loading
    def _canon_context(self) -> None:
        """Package-wide facts CANON needs before it touches any module: which function names differ from the
        reference (those are never assumed pure) and the parameter lists of uniquely named callables."""
        from .canon import set_context
        from .reference import reference_tree

        changed: set = set()
        sigs: Dict[str, Optional[List[str]]] = {}
        new_helpers: Dict = {}

        def note_sig(name: str, params: Optional[List[str]]):
            if name in sigs and sigs[name] != params:
                sigs[name] = None
            elif name not in sigs:
                sigs[name] = params

        def fparams(fn, drop_first: bool) -> Optional[List[str]]:
            a = fn.args
            if a.vararg or a.kwarg or a.posonlyargs:
                return None
            ps = [x.arg for x in a.args] + [x.arg for x in a.kwonlyargs]
            return ps[1:] if drop_first and ps else ps

        def defs_of(tree) -> Dict[str, str]:
            out = {}
            for st in tree.body:
                if isinstance(st, (ast.FunctionDef, ast.AsyncFunctionDef)):
                    out[st.name] = ast.dump(st, annotate_fields=False, include_attributes=False)
                elif isinstance(st, ast.ClassDef):
                    for sub in st.body:
                        if isinstance(sub, (ast.FunctionDef, ast.AsyncFunctionDef)):
                            out[f"{st.name}.{sub.name}"] = ast.dump(sub, annotate_fields=False, include_attributes=False)
            return out

        for dirpath, dirnames, filenames in os.walk(self.pkg_dir):
            dirnames[:] = sorted(d for d in dirnames if d != "__pycache__")
            for fn in sorted(filenames):
                if not fn.endswith(".py"):
                    continue
                path = os.path.join(dirpath, fn)
                rel = os.path.relpath(path, self.pkg_dir)
                parts = rel[:-3].split(os.sep)
                is_pkg = parts[-1] == "__init__"
                if is_pkg:
                    parts = parts[:-1]
                name = ".".join(parts)
                relroot = os.path.relpath(path, self.root)
                try:
                    src = self.overrides[relroot] if relroot in self.overrides else open(path, "r", encoding="utf-8").read()
                    tree = ast.parse(src)
                except (SyntaxError, OSError):
                    continue
                live = defs_of(tree)
                ref_tree = reference_tree(name, is_pkg)
                ref = defs_of(ref_tree) if ref_tree is not None else {}
                # module-level functions that do not exist in the reference and are one `return <expr>`: candidates for being
                # substituted into *other* modules that import them (a helper extracted into a shared module)
                mod_level = {st.name for st in tree.body if isinstance(st, (ast.FunctionDef, ast.ClassDef))} | {t.id for st in tree.body if isinstance(st, ast.Assign) for t in st.targets if isinstance(t, ast.Name)}
                for st in tree.body:
                    if isinstance(st, ast.FunctionDef) and st.name not in ref and not st.decorator_list:
                        body = [x for x in st.body if not (isinstance(x, ast.Expr) and isinstance(x.value, ast.Constant))]
                        plain = not (st.args.vararg or st.args.kwarg or st.args.kwonlyargs or st.args.posonlyargs)
                        one_expr = len(body) == 1 and isinstance(body[0], ast.Return) and body[0].value is not None
                        # ... or a short straight helper (loops and ifs allowed; no nested scopes, generators, global state, recursion)
                        small = 1 <= len(body) <= 12 and not any(isinstance(n, (ast.FunctionDef, ast.AsyncFunctionDef, ast.Lambda, ast.ClassDef, ast.Yield, ast.YieldFrom, ast.Global, ast.Nonlocal, ast.Try, ast.With)) for x in body for n in ast.walk(x)) and not any(isinstance(n, ast.Name) and n.id == st.name for x in body for n in ast.walk(x))
                        if plain and (one_expr or small):
                            new_helpers[(name, st.name)] = (st, mod_level, {al.asname or al.name for imp in tree.body if isinstance(imp, (ast.Import, ast.ImportFrom)) for al in imp.names})
                for q, dump in live.items():
                    if ref.get(q) != dump:
                        changed.add(q.split(".")[-1])
                for q in ref:
                    if q not in live:
                        changed.add(q.split(".")[-1])
                for st in tree.body:
                    if isinstance(st, (ast.FunctionDef, ast.AsyncFunctionDef)):
                        note_sig(st.name, fparams(st, False))
                    elif isinstance(st, ast.ClassDef):
                        init = next((x for x in st.body if isinstance(x, ast.FunctionDef) and x.name == "__init__"), None)
                        is_dc = any("dataclass" in ast.dump(d) for d in st.decorator_list)
                        if init is not None:
                            note_sig(st.name, fparams(init, True))
                        elif is_dc and not [b for b in st.bases if not (isinstance(b, ast.Name) and b.id in ("Protocol", "Gate", "Operation", "Generic")) and not isinstance(b, ast.Subscript)]:
                            note_sig(st.name, [x.target.id for x in st.body if isinstance(x, ast.AnnAssign) and isinstance(x.target, ast.Name)])
                        else:
                            note_sig(st.name, None)
                        for sub in st.body:
                            if isinstance(sub, (ast.FunctionDef, ast.AsyncFunctionDef)) and sub.name != "__init__":
                                deco = {getattr(d, "id", getattr(d, "attr", "")) for d in sub.decorator_list}
                                note_sig(sub.name, fparams(sub, "staticmethod" not in deco))
        set_context(changed, sigs, new_helpers)

    def _load(self) -> None:
        if os.environ.get("SA_NO_CANON") != "1":
            self._canon_context()
        for dirpath, dirnames, filenames in os.walk(self.pkg_dir):
            dirnames[:] = sorted(d for d in dirnames if d != "__pycache__")
            for fn in sorted(filenames):
                if not fn.endswith(".py"):
                    continue
                path = os.path.join(dirpath, fn)
                rel = os.path.relpath(path, self.pkg_dir)
                parts = rel[:-3].split(os.sep)
                is_pkg = parts[-1] == "__init__"
                if is_pkg:
                    parts = parts[:-1]
                name = ".".join(parts)
                relroot = os.path.relpath(path, self.root)
                if relroot in self.overrides:
                    src = self.overrides[relroot]
                else:
                    with open(path, "r", encoding="utf-8") as f:
                        src = f.read()
                try:
                    tree = ast.parse(src, filename=path)
                except SyntaxError as e:
                    self.parse_errors.append(f"{path}: {e}")
                    continue
                inlined: List[str] = []
                if os.environ.get("SA_NO_CANON") != "1":
                    from .canon import canonicalise

                    try:
                        tree, inlined = canonicalise(tree, name)
                    except Exception as e:  # canonicalisation must never hide a module
                        self.parse_errors.append(f"{path}: canonicalisation failed: {type(e).__name__}: {e}")
                        continue
                self.canon_inlined.setdefault(name, []).extend(inlined)
                if os.environ.get("SA_NO_CANON") != "1":
                    from .reference import substitute_equivalents

                    try:
                        subs = substitute_equivalents(tree, name, is_pkg)
                    except Exception as e:
                        subs = []
                        self.parse_errors.append(f"{path}: reference comparison failed: {type(e).__name__}: {e}")
                    if subs:
                        self.equivalent_to_reference.setdefault(name, []).extend(subs)
                    if self.view == "canonical":
                        from .reference import canonical_view

                        try:
                            canonical_view(tree, name, is_pkg)
                        except Exception as e:
                            self.parse_errors.append(f"{path}: canonical view failed: {type(e).__name__}: {e}")
                self.modules[name] = Module(
                    name=name,
                    path=path,
                    relpath=os.path.relpath(path, self.root),
                    source=src,
                    tree=tree,
                    is_package=is_pkg,
                )

    def _resolve_relative(self, mod: Module, level: int, target: Optional[str]) -> Optional[str]:
        """Short module name for ``from <level dots><target> import``; None if outside pkg."""
        if level == 0:
            if target is None:
                return None
            if target == PKG:
                return ""
            if target.startswith(PKG + "."):
                return target[len(PKG) + 1 :]
            return None
        base = mod.name if mod.is_package else mod.package
        parts = base.split(".") if base else []
        up = level - 1
        if up > len(parts):
            return None
        if up:
            parts = parts[: len(parts) - up]
        if target:
            parts = parts + target.split(".")
        return ".".join(parts)

    def _index(self) -> None:
        for mod in self.modules.values():
            self._index_module(mod)

    def _index_module(self, mod: Module) -> None:
        def add_func(node, cls, prefix, parent):
            qual = f"{prefix}{node.name}"
            fi = FuncInfo(module=mod, cls=cls, name=node.name, qualname=qual, node=node, parent_func=parent)
            # singledispatch ``register`` arms are often all called ``_``; keep first, suffix others
            if qual in mod.functions:
                n = 2
                while f"{qual}#{n}" in mod.functions:
                    n += 1
                fi.qualname = f"{qual}#{n}"
            mod.functions[fi.qualname] = fi
            if cls is not None and parent is None and node.name not in cls.methods:
                cls.methods[node.name] = fi
            elif cls is not None and parent is None:
                # property setter etc.: keep the first (getter) as the method
                pass
            for sub in ast.walk(node):
                pass
            for stmt in _nested_defs(node):
                if isinstance(stmt, FUNC_NODES):
                    add_func(stmt, cls, f"{fi.qualname}.<locals>.", fi)
            return fi

        for stmt in mod.tree.body:
            self._index_stmt(mod, stmt, add_func)

    def _index_stmt(self, mod: Module, stmt: ast.stmt, add_func) -> None:
        if isinstance(stmt, FUNC_NODES):
            add_func(stmt, None, "", None)
        elif isinstance(stmt, ast.ClassDef):
            ci = ClassInfo(module=mod, name=stmt.name, node=stmt)
            mod.classes[stmt.name] = ci
            for sub in stmt.body:
                if isinstance(sub, FUNC_NODES):
                    add_func(sub, ci, f"{stmt.name}.", None)
                elif isinstance(sub, ast.Assign):
                    for t in sub.targets:
                        if isinstance(t, ast.Name):
                            ci.class_assigns[t.id] = sub.value
        elif isinstance(stmt, ast.Import):
            for alias in stmt.names:
                local = alias.asname or alias.name.split(".")[0]
                short = self._resolve_relative(mod, 0, alias.name)
                if short is not None and alias.asname:
                    mod.imports[local] = ImportRef(module=short, symbol=None)
                else:
                    mod.imports[local] = ImportRef(module=None, symbol=None, external=alias.name if alias.asname else alias.name.split(".")[0])
        elif isinstance(stmt, ast.ImportFrom):
            short = self._resolve_relative(mod, stmt.level, stmt.module)
            for alias in stmt.names:
                if alias.name == "*":
                    if short is not None:
                        mod.star_imports.append(short)
                    continue
                local = alias.asname or alias.name
                if short is None:
                    mod.imports[local] = ImportRef(module=None, symbol=None, external=f"{stmt.module}.{alias.name}")
                else:
                    sub = f"{short}.{alias.name}" if short else alias.name
                    if sub in self.modules:
                        mod.imports[local] = ImportRef(module=sub, symbol=None)
                    else:
                        mod.imports[local] = ImportRef(module=short, symbol=alias.name)
        elif isinstance(stmt, ast.Assign):
            for t in stmt.targets:
                if isinstance(t, ast.Name):
                    mod.assigns[t.id] = stmt.value
        elif isinstance(stmt, ast.AnnAssign):
            if isinstance(stmt.target, ast.Name) and stmt.value is not None:
                mod.assigns[stmt.target.id] = stmt.value
        elif isinstance(stmt, (ast.If, ast.Try)):
            # e.g. ``try: import x except ImportError: ...`` / ``if TYPE_CHECKING:``
            for sub in _flat_children(stmt):
                self._index_stmt(mod, sub, add_func)

    # ------------------------------------------------------------------ lookup
    def module(self, name: str) -> Module:
        if name not in self.modules:
            raise AnchorMissing(f"module {name} not found under {PKG_DIR}")
        return self.modules[name]

    def func(self, key: str) -> FuncInfo:
        modname, qual = key.split(":", 1)
        mod = self.module(modname)
        if qual not in mod.functions:
            raise AnchorMissing(f"function {qual} not found in module {modname}")
        return mod.functions[qual]

    def has_func(self, key: str) -> bool:
        modname, qual = key.split(":", 1)
        return modname in self.modules and qual in self.modules[modname].functions

    def cls(self, key: str) -> ClassInfo:
        modname, name = key.split(":", 1)
        mod = self.module(modname)
        if name not in mod.classes:
            raise AnchorMissing(f"class {name} not found in module {modname}")
        return mod.classes[name]

    def all_functions(self, include_excluded: bool = False) -> List[FuncInfo]:
        out = []
        for mod in self.modules.values():
            if not include_excluded and mod.name in EXCLUDED_FROM_RULES:
                continue
            out.extend(mod.functions.values())
        return out

    def all_classes(self) -> List[ClassInfo]:
        out = []
        for mod in self.modules.values():
            if mod.name in EXCLUDED_FROM_RULES:
                continue
            out.extend(mod.classes.values())
        return out

    # ---------------------------------------------------------- name resolution
    def resolve_name(self, mod: Module, name: str, _depth: int = 0):
        """Resolve a module-level name to ('func', FuncInfo) | ('class', ClassInfo) |
        ('module', Module) | ('external', dotted) | ('value', ast node, Module) | None."""
        if _depth > 8:
            return None
        if name in mod.functions and "." not in name:
            return ("func", mod.functions[name])
        if name in mod.classes:
            return ("class", mod.classes[name])
        if name in mod.assigns:
            return ("value", mod.assigns[name], mod)
        if name in mod.imports:
            ref = mod.imports[name]
            if ref.external is not None:
                return ("external", ref.external)
            if ref.symbol is None:
                target = self.modules.get(ref.module)
                return ("module", target) if target is not None else None
            target = self.modules.get(ref.module)
            if target is None:
                return None
            return self.resolve_name(target, ref.symbol, _depth + 1)
        for star in mod.star_imports:
            target = self.modules.get(star)
            if target is not None:
                r = self.resolve_name(target, name, _depth + 1)
                if r is not None:
                    return r
        return None

    def resolve_dotted(self, mod: Module, expr: ast.AST):
        """Resolve Name / module.attr chains at module level (e.g. ``_gates.Dagger``)."""
        if isinstance(expr, ast.Name):
            return self.resolve_name(mod, expr.id)
        if isinstance(expr, ast.Attribute):
            base = self.resolve_dotted(mod, expr.value)
            if base is None:
                return None
            if base[0] == "module":
                return self.resolve_name(base[1], expr.attr)
            if base[0] == "external":
                return ("external", f"{base[1]}.{expr.attr}")
            if base[0] == "class":
                ci = base[1]
                m = self.find_method(ci, expr.attr)
                if m is not None:
                    return ("func", m)
                return None
        return None

    # ---------------------------------------------------------------- classes
    def bases(self, ci: ClassInfo) -> List[ClassInfo]:
        out = []
        for b in ci.node.bases:
            target = b.value if isinstance(b, ast.Subscript) else b
            r = self.resolve_dotted(ci.module, target)
            if r is not None and r[0] == "class":
                out.append(r[1])
        return out

    def mro(self, ci: ClassInfo) -> List[ClassInfo]:
        """Linearisation good enough for single/multiple inheritance without diamonds
        that matter here: depth-first, left to right, duplicates removed keeping last."""
        order: List[ClassInfo] = []

        def visit(c: ClassInfo):
            order.append(c)
            for b in self.bases(c):
                visit(b)

        visit(ci)
        seen = set()
        out: List[ClassInfo] = []
        # keep the *last* occurrence of duplicates (closest to C3 for our hierarchies)
        for c in reversed(order):
            if c.key not in seen:
                seen.add(c.key)
                out.append(c)
        out.reverse()
        # ensure ci first
        out.sort(key=lambda c: 0 if c.key == ci.key else 1)
        return out

    def subclasses(self, ci: ClassInfo, strict: bool = True) -> List[ClassInfo]:
        out = []
        for other in self.all_classes():
            if other.key == ci.key:
                if not strict:
                    out.append(other)
                continue
            if any(c.key == ci.key for c in self.mro(other)):
                out.append(other)
        return out

    def is_subclass(self, ci: ClassInfo, base_key: str) -> bool:
        return any(c.key == base_key for c in self.mro(ci))

    def find_method(self, ci: ClassInfo, name: str) -> Optional[FuncInfo]:
        for c in self.mro(ci):
            if name in c.methods:
                return c.methods[name]
            # ``__call__ = Gate.__call__`` style aliases
            if name in c.class_assigns:
                r = self.resolve_dotted(c.module, c.class_assigns[name])
                if r is not None and r[0] == "func":
                    return r[1]
        return None

    def methods_named(self, name: str) -> List[FuncInfo]:
        out = []
        for ci in self.all_classes():
            if name in ci.methods:
                out.append(ci.methods[name])
        return out

    def dispatch_targets(self, ci: ClassInfo, name: str) -> List[FuncInfo]:
        """``self.name`` on an instance whose static class is ci: the inherited definition
        plus every override in subclasses."""
        out: List[FuncInfo] = []
        m = self.find_method(ci, name)
        if m is not None:
            out.append(m)
        for sub in self.subclasses(ci):
            if name in sub.methods and sub.methods[name] not in out:
                out.append(sub.methods[name])
        return out

    # ---------------------------------------------------------- singledispatch
    def registry(self, base: FuncInfo) -> List[Tuple[Optional[ast.AST], FuncInfo]]:
        """Arms of a singledispatch function: list of (dispatch type expr, arm)."""
        arms: List[Tuple[Optional[ast.AST], FuncInfo]] = []
        mod = base.module
        for fi in mod.functions.values():
            if fi.cls is not None or fi.parent_func is not None:
                continue
            for d in fi.node.decorator_list:
                target = d.func if isinstance(d, ast.Call) else d
                if (
                    isinstance(target, ast.Attribute)
                    and target.attr == "register"
                    and isinstance(target.value, ast.Name)
                    and target.value.id == base.name
                ):
                    if isinstance(d, ast.Call) and d.args:
                        type_expr = d.args[0]
                    else:
                        args = fi.node.args.posonlyargs + fi.node.args.args
                        type_expr = args[0].annotation if args else None
                    arms.append((type_expr, fi))
        return arms

    def is_singledispatch(self, fi: FuncInfo) -> bool:
        return any(d.split(".")[-1] == "singledispatch" for d in fi.decorators)

    # --------------------------------------------------------- call resolution
    def resolve_call(
        self,
        fi: FuncInfo,
        call: ast.Call,
        local_types: Optional[Dict[str, ClassInfo]] = None,
    ) -> Tuple[List[FuncInfo], Optional[str]]:
        """Targets of a call inside function ``fi``.

        Returns (targets, external_name). ``targets`` may be several functions (dynamic
        dispatch / CHA / singledispatch arms); ``external_name`` is set when the callee is
        not a repo function (builtin, third party or unresolvable)."""
        func = call.func
        mod = fi.module
        local_types = local_types or {}

        def with_arms(target: FuncInfo) -> List[FuncInfo]:
            if self.is_singledispatch(target):
                return [target] + [arm for _, arm in self.registry(target)]
            return [target]

        def ctor_targets(ci: ClassInfo) -> List[FuncInfo]:
            out = []
            for meth in ("__init__", "__post_init__", "__new__"):
                m = self.find_method(ci, meth)
                if m is not None:
                    out.append(m)
            return out

        if isinstance(func, ast.Name):
            # nested function in enclosing function scopes
            scope = fi
            while scope is not None:
                cand = f"{scope.qualname}.<locals>.{func.id}"
                if cand in mod.functions:
                    return [mod.functions[cand]], None
                scope = scope.parent_func
            r = self.resolve_name(mod, func.id)
            if r is None:
                return [], func.id
            if r[0] == "func":
                return with_arms(r[1]), None
            if r[0] == "class":
                return ctor_targets(r[1]), None if ctor_targets(r[1]) else f"ctor:{r[1].name}"
            if r[0] == "external":
                return [], r[1]
            if r[0] == "value":
                return [], f"value:{func.id}"
            return [], func.id

        if isinstance(func, ast.Attribute):
            base = func.value
            attr = func.attr
            # self.m(...) / cls.m(...)
            if isinstance(base, ast.Name) and base.id in ("self", "cls") and fi.cls is not None and not fi.is_static:
                targets = self.dispatch_targets(fi.cls, attr)
                if targets:
                    return targets, None
                return [], f"self.{attr}"
            # super().m(...)
            if isinstance(base, ast.Call) and isinstance(base.func, ast.Name) and base.func.id == "super" and fi.cls is not None:
                for c in self.mro(fi.cls)[1:]:
                    if attr in c.methods:
                        return [c.methods[attr]], None
                return [], f"super().{attr}"
            # typed local / parameter
            if isinstance(base, ast.Name) and base.id in local_types:
                targets = self.dispatch_targets(local_types[base.id], attr)
                if targets:
                    return targets, None
            # module.func / Class.method / external.attr
            r = self.resolve_dotted(mod, func)
            if r is not None:
                if r[0] == "func":
                    return with_arms(r[1]), None
                if r[0] == "class":
                    return ctor_targets(r[1]), None
                if r[0] == "external":
                    return [], r[1]
            rb = self.resolve_dotted(mod, base) if isinstance(base, (ast.Name, ast.Attribute)) else None
            if rb is not None and rb[0] == "external":
                return [], f"{rb[1]}.{attr}"
            # type(x)(...) handled by caller; CHA by method name
            cha = self.methods_named(attr)
            if cha:
                return cha, f"cha:{attr}"
            return [], f".{attr}"

        return [], norm(func)

    def annotation_class(self, mod: Module, ann: Optional[ast.AST]) -> Optional[ClassInfo]:
        """Repo class named by a (possibly quoted / Optional[...] ) annotation."""
        if ann is None:
            return None
        if isinstance(ann, ast.Constant) and isinstance(ann.value, str):
            try:
                ann = ast.parse(ann.value, mode="eval").body
            except SyntaxError:
                return None
        if isinstance(ann, ast.Subscript):
            head = dotted(ann.value) or ""
            if head.split(".")[-1] in ("Optional",):
                return self.annotation_class(mod, ann.slice)
            return None
        r = self.resolve_dotted(mod, ann) if isinstance(ann, (ast.Name, ast.Attribute)) else None
        if r is not None and r[0] == "class":
            return r[1]
        return None


def _nested_defs(func_node: ast.AST) -> List[ast.AST]:
    """Function definitions nested directly inside a function body (any block depth)."""
    out: List[ast.AST] = []
    stack = list(getattr(func_node, "body", []))
    while stack:
        cur = stack.pop(0)
        if isinstance(cur, FUNC_NODES):
            out.append(cur)
            continue
        if isinstance(cur, ast.ClassDef):
            continue
        for child in ast.iter_child_nodes(cur):
            if isinstance(child, ast.stmt):
                stack.append(child)
            elif isinstance(child, ast.ExceptHandler):
                stack.extend(child.body)
    return out


def _flat_children(stmt: ast.stmt) -> List[ast.stmt]:
    out: List[ast.stmt] = []
    for fld in ("body", "orelse", "finalbody"):
        out.extend(getattr(stmt, fld, []) or [])
    for h in getattr(stmt, "handlers", []) or []:
        out.extend(h.body)
    return out
