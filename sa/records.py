"""Writer/reader record pairs of the package and the rule that compares them."""
from __future__ import annotations

import ast
from typing import Dict, List, Optional, Sequence, Tuple

from .astutil import body_walk, dotted, norm, positional_params, short
from .schema import Access, ReaderAccesses, WDict, WList, compare, shape_keys, writer_shape


def check_pair(ctx, rule: str, name: str, writer_key: str, reader_key: str, reader_root: Optional[str], allow_unread: Optional[Dict[Tuple[str, ...], str]] = None, restrict=None, min_keys: int = 1, allow_unwritten: Optional[Dict[Tuple[str, ...], str]] = None, allow_gated: Optional[Dict[Tuple[str, ...], str]] = None):
    """SCHEMA Rules A and B for one writer/reader pair.

    reader_root: name of the reader's record parameter, or None for "the json.load result"."""
    repo = ctx.repo
    w = repo.func(writer_key)
    r = repo.func(reader_key)
    ctx.analysed(w, r)
    shape = writer_shape(repo, w)
    if not isinstance(shape, (WDict, WList)):
        ctx.undecided(rule, f"record:{name}", f"cannot extract the record shape written by {w.qualname}", w)
        return
    acc = ReaderAccesses(repo, r, reader_root, restrict=restrict).accesses
    keys = shape_keys(shape)
    if len(keys) < min_keys or not acc:
        ctx.undecided(rule, f"record:{name}", f"extracted {len(keys)} writer keys / {len(acc)} reader accesses: below what was confirmed by hand", w)
        return
    problems, checked = compare(shape, acc, allow_unread or {}, allow_unwritten or {}, allow_gated or {})
    bad_paths = {p[1] for p in problems}
    for kind, path, detail, where in problems:
        ctx.violation(rule, f"record:{name}:{'/'.join(path)}:{kind}", f"{name}: {detail} (writer {w.qualname}, reader {r.qualname})", where or w.where)
    seen = set()
    for kind, path, flag in checked:
        if path in bad_paths or (kind[0], path) in seen:
            continue
        seen.add((kind[0], path))
        if kind == "A":
            ctx.ok(rule, f"record:{name}:{'/'.join(path)}:read", f"{'required' if flag else 'optional'} read is consistent with the writer", r)
        elif kind == "B":
            ctx.ok(rule, f"record:{name}:{'/'.join(path)}:written", f"written ({'conditionally' if flag else 'always'}) and consumed", w)
        else:
            ctx.ok(rule, f"record:{name}:{'/'.join(path)}:written", f"written; intentionally not read back: {allow_unread[path]}", w)


def loader_accepts_path_and_file(ctx, rule: str, loader_key: str):
    """SIBLING: a load function accepts a path and an open file.

    Accepted idioms: ``with ensure_open(x) as f`` ; ``if isinstance(x, str): open(...)`` with an
    ``else`` branch that reads from the object itself (``json.load(x)``)."""
    fi = ctx.repo.func(loader_key)
    ctx.analysed(fi)
    ps = positional_params(fi.node)
    src = ps[1] if ps and ps[0] in ("cls", "self") and len(ps) > 1 else (ps[0] if ps else None)
    if src is None:
        ctx.undecided(rule, fi.key, "loader has no source parameter", fi)
        return
    uses_ensure = False
    branches = False
    opens_directly = False
    for n in body_walk(fi.node):
        if isinstance(n, ast.Call):
            d = dotted(n.func) or ""
            if d.split(".")[-1] == "ensure_open" and n.args and norm(n.args[0]) == src:
                uses_ensure = True
            if d == "open" and n.args and norm(n.args[0]) == src:
                opens_directly = True
        if isinstance(n, ast.If) and "isinstance" in norm(n.test) and src in norm(n.test):
            loads_obj = any(
                isinstance(c, ast.Call) and (dotted(c.func) or "").split(".")[-1] in ("load",) and c.args and norm(c.args[0]) == src
                for b in n.orelse
                for c in ast.walk(b)
            )
            if loads_obj:
                branches = True
    # the path side of the branch: the repo's own helper `ensure_open` treats str, bytes and os.PathLike as paths, and the
    # loaders are annotated with the same LoadSource type; a loader whose test is `isinstance(x, str)` alone hands a
    # pathlib.Path to json.load and fails (sibling disagreement)
    if branches and not uses_ensure:
        narrow = []
        for n in body_walk(fi.node):
            if isinstance(n, ast.If) and isinstance(n.test, ast.Call) and dotted(n.test.func) == "isinstance" and len(n.test.args) == 2 and norm(n.test.args[0]) == src:
                t = norm(n.test.args[1])
                if not any(x in t for x in ("PathLike", "Path", "AnyPath")):
                    narrow.append(n)
        ctx.check(not narrow, rule, fi.key + ":path-types", "every kind of path the sibling loaders accept (str / os.PathLike) is opened", f"{fi.qualname} treats only `{norm(narrow[0].test.args[1]) if narrow else ''}` as a path, unlike ensure_open (str, bytes, os.PathLike) used by its siblings and unlike its own LoadSource annotation: given a pathlib.Path it tries to read from the path object and fails", f"{fi.module.relpath}:{narrow[0].lineno}" if narrow else fi)
    ok = uses_ensure or branches
    ctx.check(ok, rule, fi.key, "accepts a path or an open file" + (" (ensure_open)" if uses_ensure else " (isinstance branch)"),
              f"{fi.qualname} only works for a path: it opens `{src}` directly and has no branch for an already-open file" if opens_directly else f"{fi.qualname} has no recognised path-or-file handling for `{src}`", fi)
