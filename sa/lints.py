"""Small repository-wide lints (each used as a zero-expected rule with a positive twin)."""
from __future__ import annotations

import ast
from typing import Dict, List, Optional, Set, Tuple

from .astutil import body_walk, dotted, norm, positional_params, short, walk_local
from .common import enclosing_loops
from .model import FuncInfo, Repo

ONE_SHOT_MAKERS = {"map", "filter", "zip", "iter", "reversed", "enumerate", "chain", "islice", "groupby", "product"}
EXHAUSTING = {"list", "tuple", "set", "frozenset", "sorted", "dict", "sum", "max", "min", "any", "all", "join", "Counter", "array", "fromiter"}
PARTIAL = {"islice", "next"}


_LAZY_WRAPPERS = {"enumerate", "zip", "iter", "map", "filter", "chain", "islice", "zip_longest"}


def _iterated_names(it: ast.AST) -> set:
    """names whose iteration a loop over ``it`` drives: the name itself, or the arguments of lazy wrappers around it
    (``for i, x in enumerate(p)``, ``for a, b in zip(p, q)``)"""
    if isinstance(it, ast.Name):
        return {it.id}
    if isinstance(it, ast.Call) and (dotted(it.func) or "").split(".")[-1] in _LAZY_WRAPPERS:
        out = set()
        for a in it.args:
            out |= _iterated_names(a)
        return out
    return set()


def _iterates_param(repo: Repo, fi: FuncInfo, index: int, depth: int = 0) -> bool:
    """Does the callee iterate its ``index``-th positional parameter to exhaustion?"""
    ps = positional_params(fi.node)
    if index >= len(ps) or depth > 3:
        return False
    p = ps[index]
    for n in body_walk(fi.node):
        if isinstance(n, (ast.For, ast.comprehension)) and p in _iterated_names(n.iter):
            return True
        if isinstance(n, ast.Call):
            base = (dotted(n.func) or "").split(".")[-1]
            for i, a in enumerate(n.args):
                if isinstance(a, ast.Name) and a.id == p:
                    if base in EXHAUSTING:
                        return True
                    targets, ext = repo.resolve_call(fi, n)
                    for t in targets:
                        off = 1 if (t.cls is not None and not t.is_static and isinstance(n.func, ast.Attribute)) else 0
                        if _iterates_param(repo, t, i + off, depth + 1):
                            return True
    return False


def iterator_reuse_sites(repo: Repo, fi: FuncInfo) -> List[Tuple[str, ast.AST, ast.AST]]:
    """(name, binding, consuming use) where a one-shot iterator bound outside a repeated
    region is exhausted inside one (or at two distinct program points)."""
    out: List[Tuple[str, ast.AST, ast.AST]] = []
    bindings: Dict[str, ast.AST] = {}
    for n in body_walk(fi.node):
        if isinstance(n, ast.Assign) and len(n.targets) == 1 and isinstance(n.targets[0], ast.Name):
            v = n.value
            one_shot = isinstance(v, ast.GeneratorExp) or (isinstance(v, ast.Call) and (dotted(v.func) or "").split(".")[-1] in ONE_SHOT_MAKERS)
            if one_shot and not enclosing_loops(fi.node, n):
                bindings[n.targets[0].id] = n
            elif n.targets[0].id in bindings:
                del bindings[n.targets[0].id]
    for name, bind in bindings.items():
        uses: List[Tuple[ast.AST, bool]] = []  # (node, inside repeated region)
        for n in body_walk(fi.node):
            consuming = None
            if isinstance(n, (ast.For, ast.comprehension)) and name in _iterated_names(n.iter):
                consuming = n
            elif isinstance(n, ast.Call):
                base = (dotted(n.func) or "").split(".")[-1]
                if base in PARTIAL:
                    continue
                for i, a in enumerate(n.args):
                    if isinstance(a, ast.Name) and a.id == name:
                        if base in EXHAUSTING:
                            consuming = n
                        else:
                            targets, ext = repo.resolve_call(fi, n)
                            for t in targets:
                                off = 1 if (t.cls is not None and not t.is_static and isinstance(n.func, ast.Attribute)) else 0
                                if _iterates_param(repo, t, i + off):
                                    consuming = n
            if consuming is not None:
                loops = enclosing_loops(fi.node, consuming)
                # a comprehension's *first* iterable is evaluated once, outside the repetition
                repeated = False
                for l in loops:
                    if isinstance(l, (ast.ListComp, ast.SetComp, ast.GeneratorExp, ast.DictComp)):
                        first_iter = l.generators[0].iter
                        if any(x is consuming for x in ast.walk(first_iter)) or (isinstance(consuming, ast.comprehension) and consuming is l.generators[0]):
                            continue
                    repeated = True
                uses.append((consuming, repeated))
        for u, rep in uses:
            if rep:
                out.append((name, bind, u))
        if len(uses) >= 2 and not any(rep for _, rep in uses):
            out.append((name, bind, uses[1][0]))
    return out


_POSITIVE = '''
def f(rows, names):
    it = map(str, names)
    return [g(r, it) for r in rows]
def g(r, it):
    return [x for x in it]
'''


def self_check_iterator_reuse() -> bool:
    tree = ast.parse(_POSITIVE)

    class _Mod:
        name = "<positive>"
        relpath = "<positive>"
        functions: Dict[str, FuncInfo] = {}
        classes: Dict[str, object] = {}
        imports: Dict[str, object] = {}
        star_imports: List[str] = []
        assigns: Dict[str, ast.AST] = {}

    mod = _Mod()
    fis = {}
    for n in tree.body:
        fi = FuncInfo(module=mod, cls=None, name=n.name, qualname=n.name, node=n)
        fis[n.name] = fi
    mod.functions = fis

    class _Repo:
        def resolve_call(self, fi, call, local_types=None):
            if isinstance(call.func, ast.Name) and call.func.id in fis:
                return [fis[call.func.id]], None
            return [], dotted(call.func)

    return bool(iterator_reuse_sites(_Repo(), fis["f"]))


# ----------------------------------------------------------------------------- optional-number truthiness
NUMERIC_ANN = ("complex", "float", "int", "Number", "numbers.Number", "np.ndarray")


def _optional_numeric(ann: Optional[ast.AST]) -> bool:
    if ann is None:
        return False
    t = norm(ann)
    if t.startswith("Optional[") and t[len("Optional["):-1] in NUMERIC_ANN[:5]:
        return True
    if t.startswith("Union[") and "None" in t and any(n in t for n in NUMERIC_ANN[:5]):
        return True
    return False


def _return_slots(fi: FuncInfo) -> List[Optional[ast.AST]]:
    """Annotations of the positions of a ``Tuple[...]`` return annotation (or [annotation])."""
    r = getattr(fi.node, "returns", None)
    if r is None:
        return []
    if isinstance(r, ast.Subscript) and norm(r.value) in ("Tuple", "tuple", "typing.Tuple"):
        s = r.slice
        return list(s.elts) if isinstance(s, ast.Tuple) else [s]
    return [r]


def optional_number_truthiness(repo: Repo, fi: FuncInfo) -> List[Tuple[str, ast.AST, str]]:
    """(name, test node, why-optional) where a value that may be a legitimate numeric 0 *or* None is
    tested by truthiness: ``if x:`` treats 0 like "not given". Only ``is None`` / ``is not None`` tell
    the two apart."""
    cands: Dict[str, str] = {}
    a = fi.node.args
    for p in list(a.posonlyargs) + list(a.args) + list(a.kwonlyargs):
        if _optional_numeric(p.annotation):
            cands[p.arg] = f"parameter annotated {norm(p.annotation)}"
    for n in body_walk(fi.node):
        if isinstance(n, ast.Assign) and isinstance(n.value, ast.Call):
            targets, _ = repo.resolve_call(fi, n.value)
            for t in targets[:1]:
                slots = _return_slots(t)
                tgt = n.targets[0]
                if isinstance(tgt, ast.Tuple) and len(slots) == len(tgt.elts):
                    for e, s in zip(tgt.elts, slots):
                        if isinstance(e, ast.Name) and _optional_numeric(s):
                            cands[e.id] = f"position of {t.qualname}() annotated {norm(s)}"
                elif isinstance(tgt, ast.Name) and len(slots) == 1 and _optional_numeric(slots[0]):
                    cands[tgt.id] = f"result of {t.qualname}() annotated {norm(slots[0])}"
    out: List[Tuple[str, ast.AST, str]] = []
    if not cands:
        return out

    def bare(e: ast.AST) -> Optional[str]:
        if isinstance(e, ast.UnaryOp) and isinstance(e.op, ast.Not):
            return bare(e.operand)
        if isinstance(e, ast.Name) and e.id in cands:
            return e.id
        if isinstance(e, ast.Call) and dotted(e.func) == "bool" and len(e.args) == 1:
            return bare(e.args[0])
        return None

    for n in body_walk(fi.node):
        tests: List[ast.AST] = []
        if isinstance(n, (ast.If, ast.While, ast.IfExp, ast.Assert)):
            tests.append(n.test)
        if isinstance(n, ast.BoolOp):
            tests.extend(n.values[:-1] if isinstance(n.op, (ast.And, ast.Or)) else [])
        for t in tests:
            parts = t.values if isinstance(t, ast.BoolOp) else [t]
            for p in parts:
                nm = bare(p)
                if nm is not None:
                    out.append((nm, p, cands[nm]))
    seen = set()
    uniq = []
    for nm, p, why in out:
        k = (nm, getattr(p, "lineno", 0), getattr(p, "col_offset", 0))
        if k not in seen:
            seen.add(k)
            uniq.append((nm, p, why))
    return uniq


_POSITIVE_OPT = '''
def parse(s) -> Tuple[Optional[complex], dict]:
    return None, {}
def f(text, coefficient: Optional[complex] = None):
    parsed, ops = parse(text)
    if parsed:
        coefficient = parsed
    return 1.0 if not coefficient else coefficient
'''


def self_check_optional_number() -> bool:
    tree = ast.parse(_POSITIVE_OPT)

    class _Mod:
        name = "<positive>"
        relpath = "<positive>"

    fis = {n.name: FuncInfo(module=_Mod(), cls=None, name=n.name, qualname=n.name, node=n) for n in tree.body}

    class _Repo:
        def resolve_call(self, fi, call, local_types=None):
            if isinstance(call.func, ast.Name) and call.func.id in fis:
                return [fis[call.func.id]], None
            return [], dotted(call.func)

    hits = optional_number_truthiness(_Repo(), fis["f"])
    return {h[0] for h in hits} == {"parsed", "coefficient"}


# ----------------------------------------------------------------------------- one-sided tests on a signed part
def one_sided_signed_part_tests(repo: Repo, module_names) -> List[Tuple[FuncInfo, ast.AST]]:
    """Tests of the form ``x.imag > tol`` / ``np.any(a.imag > tol)`` (tolerance >= 0) that are not mirrored for the
    other sign and not wrapped in abs()/isclose(): a decision meant to be "is this part negligible?" that treats
    every negative value as negligible (Engler-style one-sided comparison)."""
    from .props.c16 import sidedness

    def is_part(e: ast.AST) -> bool:
        return isinstance(e, ast.Attribute) and e.attr in ("imag",) or (isinstance(e, ast.Call) and (dotted(e.func) or "").split(".")[-1] in ("imag",))

    out: List[Tuple[FuncInfo, ast.AST]] = []
    for mn in module_names:
        if mn not in repo.modules:
            continue
        for fi in repo.module(mn).functions.values():
            tests: List[ast.AST] = []
            for n in body_walk(fi.node):
                if isinstance(n, (ast.If, ast.IfExp, ast.While, ast.Assert)):
                    tests.append(n.test)
                elif isinstance(n, ast.comprehension):
                    tests.extend(n.ifs)
            for t in tests:
                if not any(is_part(x) for x in ast.walk(t)):
                    continue
                if sidedness(t, is_part) == "one":
                    out.append((fi, t))
    return out


_IDENTITY_CTORS = {"identity", "eye", "Identity"}


def _is_identity_like(e: ast.AST) -> bool:
    return isinstance(e, ast.Call) and (dotted(e.func) or "").split(".")[-1] in _IDENTITY_CTORS


def identity_padding_on_the_left(repo, module_names):
    """``kron(identity(...), M)`` for a matrix ``M`` that is not an identity: in this code base qubit 0 is the leftmost (most
    significant) Kronecker factor, so qubits *added* to a register get higher indices and their identity factor belongs on the
    right. Padding on the left moves the operator to the last qubits. Returns [(FuncInfo, call)]."""
    out = []
    for m in module_names:
        mod = repo.module(m)
        for fi in mod.all_functions() if hasattr(mod, "all_functions") else list(mod.functions.values()) + [f for c in mod.classes.values() for f in c.methods.values()]:
            for c in body_walk(fi.node):
                if isinstance(c, ast.Call) and (dotted(c.func) or "").split(".")[-1] in ("kron", "kronecker_product") and len(c.args) >= 2:
                    a, b = c.args[0], c.args[1]
                    if _is_identity_like(a) and not _is_identity_like(b) and not (len(c.args) >= 3 and _is_identity_like(c.args[2])):
                        out.append((fi, c))
    return out


# ---------------------------------------------------------------------------------------------------------- cache decorators
_CACHE_DECOS = {"lru_cache", "cache", "cached_property"}
_ONE_SHOT_RESULTS = {"reversed", "map", "filter", "iter", "zip", "chain", "islice", "enumerate"}
_MUTABLE_RESULTS = {"Matrix", "MutableDenseMatrix", "array", "asarray", "zeros", "ones", "eye", "empty", "full", "arange", "list", "dict", "set", "Counter", "defaultdict", "OrderedDict", "deque", "bytearray", "csc_matrix", "csr_matrix", "coo_matrix", "identity", "kron", "copy", "deepcopy"}


def _deco_name(d: ast.AST) -> str:
    return (dotted(d.func if isinstance(d, ast.Call) else d) or "").split(".")[-1]


def _class_by_name(repo, name: str):
    for m in repo.modules.values():
        if name in m.classes:
            return m.classes[name]
    return None


def _annotation_classes(repo, mod, ann: ast.AST, depth: int = 0):
    """repository classes an annotation can denote (through Union/Tuple/Optional/... and module-level aliases)"""
    out = []
    if ann is None or depth > 4:
        return out
    if isinstance(ann, ast.Constant) and isinstance(ann.value, str):
        try:
            ann = ast.parse(ann.value, mode="eval").body
        except SyntaxError:
            return out
    for n in ast.walk(ann):
        if isinstance(n, ast.Constant) and isinstance(n.value, str) and n is not ann:
            out.extend(_annotation_classes(repo, mod, n, depth + 1))  # forward reference inside Union[...] / Tuple[...]
            continue
        nm = n.id if isinstance(n, ast.Name) else (n.attr if isinstance(n, ast.Attribute) else None)
        if nm is None:
            continue
        ci = _class_by_name(repo, nm)
        if ci is not None:
            out.append(ci)
            continue
        for m in [mod] + list(repo.modules.values()):
            if nm in m.assigns and isinstance(m.assigns[nm], (ast.Subscript, ast.Name, ast.Attribute, ast.BinOp)):
                out.extend(_annotation_classes(repo, m, m.assigns[nm], depth + 1))
                break
    return out


def _is_frozen_dataclass(ci) -> bool:
    for d in ci.node.decorator_list:
        if _deco_name(d) == "dataclass" and isinstance(d, ast.Call) and any(k.arg == "frozen" and isinstance(k.value, ast.Constant) and k.value.value is True for k in d.keywords):
            return True
    return False


def unsound_caches(repo, module_names):
    """[(FuncInfo, decorator name, reason)] for functools caches whose key or result cannot be trusted:
    (a) cached_property / a cached method on a class that is not a frozen dataclass -- the object can change after the value was
        remembered (and every caller receives the same result object);
    (b) a cached function with a parameter whose class defines its own __eq__/__hash__ -- the cache then hands the result for one
        argument to any other argument that merely compares equal (tolerant equality, rounded hashes);
    (c) a cached function whose result is a one-shot iterator -- the second caller receives an exhausted iterator."""
    out = []
    seen = 0
    for mn in module_names:
        if mn not in repo.modules:
            continue
        mod = repo.module(mn)
        funcs = list(mod.functions.values())
        for fi in funcs:
            decos = [_deco_name(d) for d in fi.node.decorator_list]
            # a module-level alias of a functools cache: `_constant = lru_cache(maxsize=None)`, `memo = functools.cache`
            for k_, dn in enumerate(list(decos)):
                av = mod.assigns.get(dn) if hasattr(mod, "assigns") else None
                if av is not None and _deco_name(av) in _CACHE_DECOS:
                    decos[k_] = _deco_name(av)
            hit = [d for d in decos if d in _CACHE_DECOS]
            if not hit:
                continue
            seen += 1
            deco = hit[0]
            a = fi.node.args
            params = list(a.posonlyargs) + list(a.args) + list(a.kwonlyargs)
            if fi.cls is not None and params and params[0].arg in ("self",) and "staticmethod" not in decos:
                if not _is_frozen_dataclass(fi.cls):
                    out.append((fi, deco, f"the value is remembered per {fi.cls.name} object, and a {fi.cls.name} is not immutable (no frozen dataclass): once the object changes the remembered value is stale, and every caller is handed the same result object"))
                params = params[1:]
            for p in params:
                for ci in _annotation_classes(repo, mod, p.annotation):
                    custom = [m for m in ("__eq__", "__hash__") if m in ci.methods]
                    if custom:
                        out.append((fi, deco, f"the cache key uses `{p.arg}`, a {ci.name}, whose {'/'.join(custom)} is hand-written (tolerant comparison, rounded hash): a call with a different {ci.name} that merely compares equal is answered with the result remembered for the other one"))
                        break
            one_shot = _is_generator_func(fi.node)
            for r in [n.value for n in body_walk(fi.node) if isinstance(n, ast.Return) and n.value is not None]:
                if isinstance(r, ast.GeneratorExp) or (isinstance(r, ast.Call) and (dotted(r.func) or "").split(".")[-1] in _ONE_SHOT_RESULTS):
                    one_shot = True
            fresh_mutable = [r for r in [n.value for n in body_walk(fi.node) if isinstance(n, ast.Return) and n.value is not None] if isinstance(r, (ast.List, ast.Dict, ast.Set, ast.ListComp, ast.DictComp, ast.SetComp)) or (isinstance(r, ast.Call) and (dotted(r.func) or "").split(".")[-1] in _MUTABLE_RESULTS)]
            if fresh_mutable:
                out.append((fi, deco, f"the remembered result is a mutable object built once (`{short(fresh_mutable[0], 60)}`): every caller is handed the same object, so a caller that edits what it received (or a later in-place operation on it) changes what all later calls return"))
            if one_shot:
                out.append((fi, deco, "the remembered result is a one-shot iterator: the first caller consumes it and every later call with the same arguments receives it exhausted"))
    return out, seen


def _is_generator_func(fn: ast.AST) -> bool:
    return any(isinstance(n, (ast.Yield, ast.YieldFrom)) for n in body_walk(fn))


def check_caches(ctx, rule: str, module_names):
    hits, seen = unsound_caches(ctx.repo, module_names)
    for fi, deco, why in hits:
        ctx.violation(rule, f"{fi.key}:cache:{deco}", f"{fi.qualname} is wrapped in functools.{deco}: {why}", f"{fi.module.relpath}:{fi.node.lineno}")
    ctx.ok(rule, "artefacts:caches", f"{seen} functools cache decorator(s) examined in {', '.join(module_names)}: {len(hits)} with an untrustworthy key or result", "")
    check_stale_loop_variables(ctx, rule, module_names)


# ---------------------------------------------------------------------------------------------------------------
# stale loop variable: the target of a finished `for` loop read again inside a *later* loop or comprehension
# ---------------------------------------------------------------------------------------------------------------
def _local_nodes(fn: ast.AST):
    for c in ast.iter_child_nodes(fn):
        if isinstance(c, (ast.FunctionDef, ast.AsyncFunctionDef, ast.Lambda, ast.ClassDef)):
            continue
        yield c
        yield from _local_nodes(c)


def _tnames(t: ast.AST) -> set:
    return {n.id for n in ast.walk(t) if isinstance(n, ast.Name)}


def stale_loop_variable_uses(fn: ast.AST) -> List[Tuple[str, ast.AST, ast.AST]]:
    """[(name, use, loop)]: `name` is bound *only* as the target of one `for` statement (no parameter, assignment, other loop or
    comprehension binds it), that loop has no `break` (so this is not the search idiom), and `name` is read after the loop has
    ended from inside another loop or comprehension -- where it is a constant (the last element of the finished iteration) standing
    in a place that is evaluated once per element of something else. Silent on everything it does not recognise."""
    nodes = list(_local_nodes(fn))
    other = {a.arg for a in ast.walk(fn.args) if isinstance(a, ast.arg)} if hasattr(fn, "args") else set()
    fors = [n for n in nodes if isinstance(n, (ast.For, ast.AsyncFor))]
    for n in nodes:
        if isinstance(n, ast.Assign):
            for t in n.targets:
                if not isinstance(t, (ast.Subscript, ast.Attribute)):
                    other |= _tnames(t)
        elif isinstance(n, (ast.AugAssign, ast.AnnAssign)) and isinstance(n.target, ast.Name):
            other.add(n.target.id)
        elif isinstance(n, ast.NamedExpr):
            other.add(n.target.id)
        elif isinstance(n, (ast.With, ast.AsyncWith)):
            for i in n.items:
                if i.optional_vars is not None:
                    other |= _tnames(i.optional_vars)
        elif isinstance(n, ast.ExceptHandler) and n.name:
            other.add(n.name)
        elif isinstance(n, (ast.Import, ast.ImportFrom)):
            other |= {(a.asname or a.name).split(".")[0] for a in n.names}
    comp_bound: dict = {}
    in_iteration: set = set()
    for n in nodes:
        if isinstance(n, (ast.ListComp, ast.SetComp, ast.GeneratorExp, ast.DictComp)):
            vs = set()
            for g in n.generators:
                vs |= _tnames(g.target)
            for m in ast.walk(n):
                comp_bound.setdefault(id(m), set()).update(vs)
                in_iteration.add(id(m))
        elif isinstance(n, (ast.For, ast.AsyncFor, ast.While)):
            for s in n.body:
                for m in ast.walk(s):
                    in_iteration.add(id(m))
    out = []
    for L in fors:
        if any(isinstance(b, ast.Break) for b in ast.walk(L)):
            continue
        inside = {id(m) for m in ast.walk(L)}
        tn = _tnames(L.target)
        elsewhere = set()
        for L2 in fors:
            if L2 is not L:
                elsewhere |= _tnames(L2.target)
        for n in nodes:
            if not (isinstance(n, ast.Name) and isinstance(n.ctx, ast.Load) and n.id in tn) or id(n) in inside:
                continue
            if n.id in other or n.id in elsewhere or n.id in comp_bound.get(id(n), set()):
                continue
            if (n.lineno, n.col_offset) < (L.end_lineno or L.lineno, 0):
                continue
            if id(n) not in in_iteration:
                continue
            out.append((n.id, n, L))
    return out


_STALE_POSITIVE = """
def f(weights, samples):
    for state in weights:
        total = weights[state]
    out = []
    for sample in samples:
        out += [tuple(int(v) for v in state)] * samples[sample]
    return out
def g(xs, ys):
    for x in xs:
        if x:
            break
    return [x + y for y in ys]
def h(xs, ys):
    for x in xs:
        pass
    for x in ys:
        pass
    return [x for _ in ys]
"""


def self_check_stale_loop_variable() -> bool:
    t = ast.parse(_STALE_POSITIVE)
    f, g, h = t.body
    return [x[0] for x in stale_loop_variable_uses(f)] == ["state"] and not stale_loop_variable_uses(g) and not stale_loop_variable_uses(h)


def check_stale_loop_variables(ctx, rule: str, module_names):
    """One obligation per module list: no anchored function reads the variable of a finished loop inside a later iteration."""
    if not self_check_stale_loop_variable():
        ctx.undecided(rule, "lint:stale-loop-variable:self-check", "the embedded positive example is no longer recognised", "")
        return
    seen = 0
    for mn in module_names:
        if mn not in ctx.repo.modules:
            continue
        mod = ctx.repo.module(mn)
        for fi in list(mod.functions.values()):
            seen += 1
            for name, use, loop in stale_loop_variable_uses(fi.node):
                ctx.violation(rule, f"{fi.key}:stale-loop-variable:{name}", f"`{name}` is the variable of the loop `for {short(loop.target, 30)} in {short(loop.iter, 40)}` that has already finished, yet it is read again inside a later loop/comprehension of {fi.qualname} (`{short(common_stmt(fi.node, use), 90)}`): there it is the constant last element of the finished iteration, evaluated once per element of something else -- the other iteration's own variable was meant", f"{fi.module.relpath}:{use.lineno}")
    ctx.ok(rule, "lint:stale-loop-variable", f"{seen} function(s) in {', '.join(module_names)} examined: no finished loop's variable is read inside a later iteration", "")


def common_stmt(fn: ast.AST, node: ast.AST) -> ast.AST:
    best = node
    for s in _local_nodes(fn):
        if isinstance(s, ast.stmt) and not isinstance(s, (ast.For, ast.While, ast.If, ast.With, ast.Try)) and any(m is node for m in ast.walk(s)):
            best = s
    return best
