"""Small repository-wide lints (each used as a zero-expected rule with a positive twin)."""
from __future__ import annotations

import ast
from typing import Dict, List, Optional, Set, Tuple

from .astutil import body_walk, dotted, norm, positional_params, short, walk_local
from .common import enclosing_loops
from .model import FuncInfo, Repo

ONE_SHOT_MAKERS = {"map", "filter", "zip", "iter", "reversed", "enumerate", "chain", "islice", "groupby", "product"}
EXHAUSTING = {"list", "tuple", "set", "frozenset", "sorted", "dict", "sum", "max", "min", "any", "all", "join", "Counter", "array", "fromiter"}
PARTIAL = {"islice", "next"}


def _iterates_param(repo: Repo, fi: FuncInfo, index: int, depth: int = 0) -> bool:
    """Does the callee iterate its ``index``-th positional parameter to exhaustion?"""
    ps = positional_params(fi.node)
    if index >= len(ps) or depth > 3:
        return False
    p = ps[index]
    for n in body_walk(fi.node):
        if isinstance(n, (ast.For, ast.comprehension)) and isinstance(n.iter, ast.Name) and n.iter.id == p:
            return True
        if isinstance(n, ast.Call):
            base = (dotted(n.func) or "").split(".")[-1]
            for i, a in enumerate(n.args):
                if isinstance(a, ast.Name) and a.id == p:
                    if base in EXHAUSTING:
                        return True
                    targets, ext = repo.resolve_call(fi, n)
                    for t in targets:
                        off = 1 if (t.cls is not None and not t.is_static and isinstance(n.func, ast.Attribute)) else 0
                        if _iterates_param(repo, t, i + off, depth + 1):
                            return True
    return False


def iterator_reuse_sites(repo: Repo, fi: FuncInfo) -> List[Tuple[str, ast.AST, ast.AST]]:
    """(name, binding, consuming use) where a one-shot iterator bound outside a repeated
    region is exhausted inside one (or at two distinct program points)."""
    out: List[Tuple[str, ast.AST, ast.AST]] = []
    bindings: Dict[str, ast.AST] = {}
    for n in body_walk(fi.node):
        if isinstance(n, ast.Assign) and len(n.targets) == 1 and isinstance(n.targets[0], ast.Name):
            v = n.value
            one_shot = isinstance(v, ast.GeneratorExp) or (isinstance(v, ast.Call) and (dotted(v.func) or "").split(".")[-1] in ONE_SHOT_MAKERS)
            if one_shot and not enclosing_loops(fi.node, n):
                bindings[n.targets[0].id] = n
            elif n.targets[0].id in bindings:
                del bindings[n.targets[0].id]
    for name, bind in bindings.items():
        uses: List[Tuple[ast.AST, bool]] = []  # (node, inside repeated region)
        for n in body_walk(fi.node):
            consuming = None
            if isinstance(n, (ast.For, ast.comprehension)) and isinstance(n.iter, ast.Name) and n.iter.id == name:
                consuming = n
            elif isinstance(n, ast.Call):
                base = (dotted(n.func) or "").split(".")[-1]
                if base in PARTIAL:
                    continue
                for i, a in enumerate(n.args):
                    if isinstance(a, ast.Name) and a.id == name:
                        if base in EXHAUSTING:
                            consuming = n
                        else:
                            targets, ext = repo.resolve_call(fi, n)
                            for t in targets:
                                off = 1 if (t.cls is not None and not t.is_static and isinstance(n.func, ast.Attribute)) else 0
                                if _iterates_param(repo, t, i + off):
                                    consuming = n
            if consuming is not None:
                loops = enclosing_loops(fi.node, consuming)
                # a comprehension's *first* iterable is evaluated once, outside the repetition
                repeated = False
                for l in loops:
                    if isinstance(l, (ast.ListComp, ast.SetComp, ast.GeneratorExp, ast.DictComp)):
                        first_iter = l.generators[0].iter
                        if any(x is consuming for x in ast.walk(first_iter)) or (isinstance(consuming, ast.comprehension) and consuming is l.generators[0]):
                            continue
                    repeated = True
                uses.append((consuming, repeated))
        for u, rep in uses:
            if rep:
                out.append((name, bind, u))
        if len(uses) >= 2 and not any(rep for _, rep in uses):
            out.append((name, bind, uses[1][0]))
    return out


_POSITIVE = '''
def f(rows, names):
    it = map(str, names)
    return [g(r, it) for r in rows]
def g(r, it):
    return [x for x in it]
'''


def self_check_iterator_reuse() -> bool:
    tree = ast.parse(_POSITIVE)

    class _Mod:
        name = "<positive>"
        relpath = "<positive>"
        functions: Dict[str, FuncInfo] = {}
        classes: Dict[str, object] = {}
        imports: Dict[str, object] = {}
        star_imports: List[str] = []
        assigns: Dict[str, ast.AST] = {}

    mod = _Mod()
    fis = {}
    for n in tree.body:
        fi = FuncInfo(module=mod, cls=None, name=n.name, qualname=n.name, node=n)
        fis[n.name] = fi
    mod.functions = fis

    class _Repo:
        def resolve_call(self, fi, call, local_types=None):
            if isinstance(call.func, ast.Name) and call.func.id in fis:
                return [fis[call.func.id]], None
            return [], dotted(call.func)

    return bool(iterator_reuse_sites(_Repo(), fis["f"]))
