"""REFERENCE: equivalence to the verified tree, modulo canonicalisation.

``sa/reference/quantum/**.py.ref`` is a copy of the package sources of the tree on which every rule was
confirmed (commit in ``sa/reference/COMMIT``). When a function of the live tree differs from its
reference version only by behaviour-preserving restructuring — that is, both have the *same canonical
form* (``canon.canonical_dump``: new helpers inlined, temporaries inlined, if/else and early-return
normal form, simple loops as comprehensions, locals renamed apart, annotations/docstrings dropped, a few
always-valid idiom rewrites) — the model uses the reference version of that function. The rules then
reason about code they are known to understand, so such a refactoring can neither raise an alarm nor
make a rule lose its construct.

This is used in one direction only: it can make a verdict *equal to the one of the verified tree*; a
function whose canonical form differs from the reference is analysed as it is, and a difference from the
reference is never by itself reported.
"""
from __future__ import annotations

import ast
import copy
import os
from typing import Dict, List, Optional, Tuple

from .astutil import FUNC_NODES
from .canon import canonical_dump

REF_DIR = os.path.join(os.path.dirname(os.path.abspath(__file__)), "reference", "quantum")
_cache: Dict[str, Optional[ast.Module]] = {}


def reference_tree(modname: str, is_pkg: bool) -> Optional[ast.Module]:
    key = modname + ("/__init__" if is_pkg else "")
    if key in _cache:
        return _cache[key]
    parts = modname.split(".") if modname else []
    path = os.path.join(REF_DIR, *parts, "__init__.py.ref") if is_pkg else os.path.join(REF_DIR, *parts[:-1], (parts[-1] if parts else "") + ".py.ref")
    tree = None
    if os.path.exists(path):
        try:
            tree = ast.parse(open(path, encoding="utf-8").read())
        except SyntaxError:
            tree = None
    _cache[key] = tree
    return tree


def _functions(tree: ast.Module) -> Dict[str, Tuple[List[ast.stmt], int]]:
    """qualname -> (containing body list, index)"""
    out: Dict[str, Tuple[List[ast.stmt], int]] = {}
    for i, s in enumerate(tree.body):
        if isinstance(s, FUNC_NODES):
            out.setdefault(s.name, (tree.body, i))
        elif isinstance(s, ast.ClassDef):
            for j, sub in enumerate(s.body):
                if isinstance(sub, FUNC_NODES):
                    out.setdefault(f"{s.name}.{sub.name}", (s.body, j))
    return out


def _plain(node: ast.AST) -> str:
    return ast.dump(node, annotate_fields=False, include_attributes=False)


def _dataclass_fields(tree: ast.Module) -> dict:
    """class name -> init fields in order, for classes decorated with @dataclass whose body declares them by annotation only"""
    out = {}
    for s in tree.body:
        if isinstance(s, ast.ClassDef) and any((getattr(d, "id", None) or getattr(getattr(d, "func", None), "id", None) or getattr(d, "attr", None) or getattr(getattr(d, "func", None), "attr", None)) == "dataclass" for d in s.decorator_list):
            fields = []
            okc = not s.bases or all(isinstance(b, ast.Name) and b.id in ("Gate", "Protocol", "object") for b in s.bases)
            for sub in s.body:
                if isinstance(sub, ast.AnnAssign) and isinstance(sub.target, ast.Name):
                    if isinstance(sub.value, ast.Call) and any(k.arg == "init" for k in sub.value.keywords):
                        okc = False
                    fields.append(sub.target.id)
            if okc and fields and not any(isinstance(sub, ast.FunctionDef) and sub.name == "__init__" for sub in s.body):
                out[s.name] = fields
    return out


def _with_class(qual: str, live_fields: dict, ref_fields: dict):
    from .canon import set_self_class

    cname = qual.split(".")[0] if "." in qual else None
    if cname and cname in live_fields and live_fields.get(cname) == ref_fields.get(cname, live_fields.get(cname)):
        set_self_class((cname, live_fields[cname]))
    else:
        set_self_class(None)


def substitute_equivalents(live: ast.Module, modname: str, is_pkg: bool) -> List[str]:
    """Replace, in ``live``, every function that is canonically equal to (but textually different from)
    its reference version by the reference version. Returns the qualnames substituted."""
    ref = reference_tree(modname, is_pkg)
    if ref is None:
        return []
    lf, rf = _functions(live), _functions(ref)
    done: List[str] = []
    for qual, (lbody, li) in lf.items():
        if qual not in rf:
            continue
        rbody, ri = rf[qual]
        L, R = lbody[li], rbody[ri]
        if _plain(L) == _plain(R):
            continue
        if [_plain(d) for d in L.decorator_list] != [_plain(d) for d in R.decorator_list]:
            continue
        if _plain(L.args.defaults) != _plain(R.args.defaults) if False else ([_plain(x) for x in L.args.defaults] != [_plain(x) for x in R.args.defaults]):
            continue
        try:
            _with_class(qual, _dataclass_fields(live), _dataclass_fields(ref))
            same = canonical_dump(L) == canonical_dump(R)
        except Exception:
            same = False
        finally:
            from .canon import set_self_class

            set_self_class(None)
        if same:
            new = copy.deepcopy(R)
            # keep the live position for messages
            delta = getattr(L, "lineno", 1) - getattr(R, "lineno", 1)
            for n in ast.walk(new):
                if hasattr(n, "lineno"):
                    n.lineno = max(1, n.lineno + delta)
                if hasattr(n, "end_lineno") and n.end_lineno is not None:
                    n.end_lineno = max(1, n.end_lineno + delta)
            lbody[li] = new
            done.append(qual)
    return done


def canonical_view(live: ast.Module, modname: str, is_pkg: bool) -> List[str]:
    """Second *view* of a module for the rules: every function that differs from its reference version (and is not
    canonically equal to it -- those were already replaced by ``substitute_equivalents``) is replaced by its own
    canonical normal form (temporaries inlined, if/else normal form, loops as comprehensions, idioms unified; local
    names kept). The normal form is an equivalent program, so an obligation discharged on it is discharged."""
    from .canon import canonical_function

    ref = reference_tree(modname, is_pkg)
    lf = _functions(live)
    rf = _functions(ref) if ref is not None else {}
    done: List[str] = []
    for qual, (lbody, li) in lf.items():
        L = lbody[li]
        if qual in rf:
            rbody, ri = rf[qual]
            if _plain(L) == _plain(rbody[ri]):
                continue
        try:
            _with_class(qual, _dataclass_fields(live), _dataclass_fields(ref) if ref is not None else {})
            new = canonical_function(L, rename=False)
        except Exception:
            continue
        finally:
            from .canon import set_self_class

            set_self_class(None)
        new.decorator_list = L.decorator_list
        new.args = L.args
        new.returns = L.returns
        ast.copy_location(new, L)
        for n in ast.walk(new):
            if not hasattr(n, "lineno") and isinstance(n, (ast.stmt, ast.expr)):
                n.lineno = getattr(L, "lineno", 1)
                n.col_offset = 0
                n.end_lineno = getattr(L, "end_lineno", n.lineno)
                n.end_col_offset = 0
        ast.fix_missing_locations(new)
        lbody[li] = new
        done.append(qual)
    return done
