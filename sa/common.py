"""Rule fragments shared by several properties."""
from __future__ import annotations

import ast
from typing import Iterable, List, Optional, Sequence, Set, Tuple

from .astutil import arg_or_kw, body_walk, dotted, kwarg, norm, short, walk_local
from .flow import Defs
from .model import FuncInfo, Repo


def is_circuit_ctor(repo: Repo, fi: FuncInfo, call: ast.Call) -> bool:
    """Does this call construct a ``Circuit`` (or the dynamic type of a circuit)?

    ``Circuit(...)``, ``_circuit.Circuit(...)``, ``type(self)(...)`` inside Circuit,
    ``type(circuit)(...)`` where the argument is a parameter annotated Circuit."""
    f = call.func
    if isinstance(f, ast.Call) and isinstance(f.func, ast.Name) and f.func.id == "type" and len(f.args) == 1:
        a = f.args[0]
        if isinstance(a, ast.Name):
            if a.id == "self" and fi.cls is not None and fi.cls.name == "Circuit":
                return True
            ann = _param_annotation(fi, a.id)
            ci = repo.annotation_class(fi.module, ann)
            return ci is not None and ci.name == "Circuit"
        return False
    r = repo.resolve_dotted(fi.module, f) if isinstance(f, (ast.Name, ast.Attribute)) else None
    return r is not None and r[0] == "class" and r[1].name == "Circuit"


def _param_annotation(fi: FuncInfo, name: str) -> Optional[ast.AST]:
    a = fi.node.args
    for p in list(a.posonlyargs) + list(a.args) + list(a.kwonlyargs):
        if p.arg == name:
            return p.annotation
    return None


def circuit_ctor_calls(repo: Repo, fi: FuncInfo) -> List[ast.Call]:
    return [n for n in body_walk(fi.node) if isinstance(n, ast.Call) and is_circuit_ctor(repo, fi, n)]


def width_expr(call: ast.Call) -> Optional[ast.AST]:
    return arg_or_kw(call, 1, "n_qubits")


def ops_expr(call: ast.Call) -> Optional[ast.AST]:
    return arg_or_kw(call, 0, "operations")


def check_width_carried(ctx, rule: str, fi: FuncInfo, sources: Sequence[str], min_calls: int = 1, widen_ok: bool = False) -> None:
    """FIELD/width: every Circuit constructed in ``fi`` gets an explicit width that derives
    from one of ``sources`` (dotted atoms such as ``self.n_qubits``)."""
    repo = ctx.repo
    ctx.analysed(fi)
    calls = circuit_ctor_calls(repo, fi)
    if len(calls) < min_calls:
        ctx.undecided(rule, fi.key, f"expected at least {min_calls} Circuit construction(s) in {fi.qualname}, found {len(calls)}", fi)
        return
    defs = Defs(fi.node)
    for call in calls:
        w = width_expr(call)
        construct = f"{fi.key}:{short(call.func, 40)}"
        where = f"{fi.module.relpath}:{call.lineno}"
        if w is None:
            ctx.violation(rule, construct, f"Circuit built without an explicit width in {fi.qualname}: width would be inferred from the operations and idle qubits are lost ({short(call)})", where)
            continue
        atoms = defs.atoms(w)
        if any(s in atoms for s in sources):
            ctx.ok(rule, construct, f"width {short(w)} derives from {sorted(set(sources) & atoms)}", where)
        else:
            ctx.violation(rule, construct, f"width {short(w)} of the constructed Circuit does not derive from the source circuit's width ({'/'.join(sources)})", where)


FLATTEN_RETURNS = False  # set by check.run_views while the canonical view is evaluated (experiment: SA_FLATTEN_CANON_RETURNS=1)


def returned_exprs(func: ast.AST) -> List[ast.AST]:
    out = []
    for n in body_walk(func):
        if isinstance(n, ast.Return) and n.value is not None:
            out.append(n.value)
        elif isinstance(n, (ast.Yield,)) and n.value is not None:
            out.append(n.value)
    if FLATTEN_RETURNS:
        flat: List[ast.AST] = []
        for r in out:
            stack = [r]
            while stack:
                e = stack.pop()
                if isinstance(e, ast.IfExp):
                    stack += [e.orelse, e.body]
                else:
                    flat.append(e)
        return flat
    return out


def find_calls_named(func: ast.AST, names: Iterable[str]) -> List[ast.Call]:
    names = set(names)
    out = []
    for n in body_walk(func):
        if isinstance(n, ast.Call):
            d = dotted(n.func)
            if d is not None and d.split(".")[-1] in names:
                out.append(n)
    return out


def stmt_of(func: ast.AST, node: ast.AST) -> Optional[ast.stmt]:
    """Innermost statement of ``func`` containing ``node``."""
    best = None
    for s in body_walk(func):
        if isinstance(s, ast.stmt):
            for x in walk_local(s):
                if x is node:
                    best = s
                    break
    return best


def enclosing_loops(func: ast.AST, node: ast.AST) -> List[ast.AST]:
    """For/While/comprehension nodes enclosing ``node`` (outermost first)."""
    out: List[ast.AST] = []

    def visit(cur: ast.AST, stack: List[ast.AST]) -> bool:
        if cur is node:
            out.extend(stack)
            return True
        for child in ast.iter_child_nodes(cur):
            if isinstance(child, (ast.FunctionDef, ast.AsyncFunctionDef, ast.ClassDef)) and child is not func:
                continue
            nxt = stack + [cur] if isinstance(cur, (ast.For, ast.AsyncFor, ast.While, ast.ListComp, ast.GeneratorExp, ast.SetComp, ast.DictComp)) else stack
            if visit(child, nxt):
                return True
        return False

    visit(func, [])
    return out


def squared_norm_idiom(expr: ast.AST, x: str) -> Optional[bool]:
    """Does ``expr`` denote sum_i |x_i|^2 for a complex vector ``x``?

    True for the accepted idioms, False for recognised look-alikes that drop the conjugation or the
    square (``np.dot(x, x)``, ``np.sum(x ** 2)``, ``np.sum(np.abs(x))``, ``np.sum(x * x)``), None if the
    expression has another shape."""
    t = norm(expr)
    pre = ("np.", "numpy.")
    yes = set()
    no = set()
    for m in pre:
        yes |= {f"{m}sum({m}abs({x}) ** 2)", f"({m}abs({x}) ** 2).sum()", f"{m}sum({m}absolute({x}) ** 2)", f"{m}linalg.norm({x}) ** 2", f"{m}vdot({x}, {x}).real", f"{m}vdot({x}, {x})",
                f"{m}sum({x} * {m}conj({x}))", f"{m}sum({m}conj({x}) * {x})", f"{m}sum({x} * {x}.conj())", f"{m}sum({x}.conj() * {x})", f"{m}sum({m}square({m}abs({x})))", f"{m}dot({m}conj({x}), {x})", f"{m}dot({x}.conj(), {x})",
                f"{m}sum({m}real({x}) ** 2 + {m}imag({x}) ** 2)", f"{m}sum({x}.real ** 2 + {x}.imag ** 2)", f"{m}sum(abs({x}) ** 2)", f"sum(abs({x}) ** 2)", f"{m}dot({m}conj({x}), {x}).real", f"{m}dot({x}.conj(), {x}).real"}
        no |= {f"{m}dot({x}, {x})", f"{m}dot({x}, {x}).real", f"{m}sum({x} ** 2)", f"{m}sum({x} * {x})", f"{m}sum({m}abs({x}))", f"{m}sum({x})", f"{m}inner({x}, {x})", f"{m}inner({x}, {x}).real", f"{m}sum({m}square({x}))", f"{m}sum({x} ** 2).real", f"({x} ** 2).sum()", f"{m}linalg.norm({x})", f"{x} @ {x}", f"({x} @ {x}).real", f"{m}abs({m}sum({x} ** 2))", f"{m}abs({m}dot({x}, {x}))"}
    if t in yes:
        return True
    if t in no:
        return False
    return None


def share_rule(ctx, owner: str, fn, new_rule: str) -> int:
    """Run ``fn(sub)`` in a scratch context of property ``owner`` and re-file everything it reports under ``new_rule`` of the
    calling property: one rule, decided once, claimed by every property whose statement depends on it."""
    from .report import Ctx as _Ctx

    sub = _Ctx(owner, ctx.repo, ctx.tier)
    fn(sub)
    for o in sub.obligations:
        ctx._add(o.status, new_rule, o.construct, o.detail, o.where)
    ctx.functions_analysed |= sub.functions_analysed
    return len(sub.obligations)


def exit_exprs(func: ast.AST) -> List[ast.AST]:
    """Returned expressions with conditional expressions split into their arms: `return a if c else b` has the exits a and b,
    exactly like `if c: return a` / `return b` (CANON merges the statement form into the expression form)."""
    out: List[ast.AST] = []
    for r in returned_exprs(func):
        stack = [r]
        while stack:
            e = stack.pop()
            if isinstance(e, ast.IfExp):
                stack += [e.orelse, e.body]
            else:
                out.append(e)
    return out
