"""Self-test battery: breaking edits (must be reported) and benign twins (must pass).

Each entry edits the *current* tree by exact substring replacement (analysed in memory
only). ``B`` = breaking, ``T`` = benign twin. Paths are relative to src/orquestra/quantum.
"""
from __future__ import annotations

from typing import List

P = "src/orquestra/quantum/"
MUTANTS: List[dict] = []


def _add(prop, name, edits, expect, rule):
    if isinstance(edits, tuple) and isinstance(edits[0], str):
        edits = [edits]
    MUTANTS.append({"prop": prop, "name": name, "edits": [(P + f, old, new) for f, old, new in edits], "expect": expect, "rule": rule})


def B(prop, name, *edits, rule=None):
    _add(prop, name, list(edits), "violation", rule)


def T(prop, name, *edits):
    _add(prop, name, list(edits), "pass", None)


# ----------------------------------------------------------------------------- C01
SIM = "api/wavefunction_simulator.py"
CIR = "circuits/_circuit.py"
GAT = "circuits/_gates.py"
UNI = "circuits/_unitary_tools.py"
SYM = "runners/symbolic_simulator.py"

B("C01", "drop-store-of-apply", (SIM, "                    state = operation.apply(state)", "                    operation.apply(state)"), rule="C01-D1")
B("C01", "stale-initial-state", (SIM, "self._get_wavefunction_from_native_circuit(subcircuit, state)", "self._get_wavefunction_from_native_circuit(subcircuit, initial_state)"), rule="C01-D1")
B("C01", "reversed-segment-ops", (SIM, "for operation in subcircuit.operations:", "for operation in reversed(subcircuit.operations):"), rule="C01-D1")
B("C01", "swap-native-branches", (SIM, "            if is_supported:", "            if not is_supported:"), rule="C01-D1")
B("C01", "symbolic-sim-reversed", (SYM, "for operation in circuit.operations:", "for operation in circuit.operations[::-1]:"), rule="C01-D1")
B("C01", "symbolic-sim-stale", (SYM, "            state = operation.apply(state)", "            state = operation.apply(initial_state)"), rule="C01-D1")
B("C01", "whole-circuit-to-native", (SIM, "self._get_wavefunction_from_native_circuit(subcircuit, state)", "self._get_wavefunction_from_native_circuit(circuit, state)"), rule="C01-D1")
B("C01", "fresh-state-wrong-size", (SIM, "state = np.zeros(2**circuit.n_qubits)", "state = np.zeros(2 ** len(circuit.operations))"), rule="C01-D1")
B("C01", "unreverse-to-unitary", (CIR, "for op in reversed(self.operations):\n            if isinstance", "for op in self.operations:\n            if isinstance"), rule="C01-D2")
B("C01", "min-width-append-circuit", (CIR, "n_qubits=max(circuit.n_qubits, other.n_qubits),", "n_qubits=min(circuit.n_qubits, other.n_qubits),"), rule="C01-D3")
B("C01", "swap-append-order", (CIR, "operations=[*circuit.operations, *other.operations],", "operations=[*other.operations, *circuit.operations],"), rule="C01-D3")
B("C01", "append-op-width-max-index", (CIR, "n_qubits_by_operation = max(other.qubit_indices) + 1", "n_qubits_by_operation = max(other.qubit_indices)"), rule="C01-D3")
B("C01", "append-op-ignores-left-width", (CIR, "n_qubits=max(circuit.n_qubits, n_qubits_by_operation),", "n_qubits=n_qubits_by_operation,"), rule="C01-D3")
B("C01", "split-drops-width", (CIR, "yield predicate_value, Circuit(operations, n_qubits=n_qubits)", "yield predicate_value, Circuit(operations)"), rule="C01-D3w")
B("C01", "to-unitary-skips-non-gates", (CIR, """                raise ValueError(
                    f"Operation {op} is not a gate operation and so circuit cannot"
                    "be converted to a unitary matrix."
                )""", "                continue"), rule="C01-D4")
B("C01", "numeric-path-reversed-indices", (GAT, "else _lift_matrix_numpy(self.gate.matrix, self.qubit_indices, num_qubits)", "else _lift_matrix_numpy(self.gate.matrix, self.qubit_indices[::-1], num_qubits)"), rule="C01-D5")
B("C01", "apply-from-right", (GAT, "return self.lifted_matrix(int(num_qubits)) @ amplitude_vector", "return amplitude_vector @ self.lifted_matrix(int(num_qubits))"), rule="C01-D5")
B("C01", "outer-kron-swapped", (UNI, "[eye(2**smallest), inner_matrix, eye(2 ** (num_qubits - largest - 1))]", "[eye(2 ** (num_qubits - largest - 1)), inner_matrix, eye(2**smallest)]"), rule="C01-D6")
B("C01", "conjugation-inverted", (UNI, "perm_matrix.transpose() @ inner_gate_matrix @ perm_matrix", "perm_matrix @ inner_gate_matrix @ perm_matrix.transpose()"), rule="C01-D6")
B("C01", "perm-filled-by-rows", (UNI, "perm_matrix[:, i] = bitstring_to_dense_vector(output_state)", "perm_matrix[i, :] = bitstring_to_dense_vector(output_state)"), rule="C01-D6")
B("C01", "active-qubits-last-in-perm-only", (UNI, """    return list(qubit_indices) + [
        i for i in range(num_qubits) if i not in qubit_indices
    ]""", """    return [
        i for i in range(num_qubits) if i not in qubit_indices
    ] + list(qubit_indices)"""), rule="C01-D6")
T("C01", "twin-forward-iteration-right-fold", (CIR, "for op in reversed(self.operations):\n            if isinstance", "for op in self.operations:\n            if isinstance"),
  (CIR, "return reduce(operator.matmul, lifted_matrices)", "return reduce(lambda acc, m: m @ acc, lifted_matrices)"))
T("C01", "twin-rename-state", (SYM, """        state = initial_state

        for operation in circuit.operations:
            state = operation.apply(state)

        return state""", """        psi = initial_state

        for gate_op in circuit.operations:
            psi = gate_op.apply(psi)

        return psi"""))
T("C01", "twin-inversions-cancel", (UNI, "perm_matrix.transpose() @ inner_gate_matrix @ perm_matrix", "perm_matrix @ inner_gate_matrix @ perm_matrix.transpose()"),
  (UNI, "perm_matrix[:, i] = bitstring_to_dense_vector(output_state)", "perm_matrix[i, :] = bitstring_to_dense_vector(output_state)"))
T("C01", "twin-max-as-conditional", (CIR, "n_qubits=max(circuit.n_qubits, other.n_qubits),", "n_qubits=circuit.n_qubits if circuit.n_qubits >= other.n_qubits else other.n_qubits,"))
T("C01", "twin-concat-with-plus", (CIR, "operations=[*circuit.operations, *other.operations],", "operations=list(circuit.operations) + list(other.operations),"))

# ----------------------------------------------------------------------------- C20
OPS = "operators/_pauli_operators.py"
MEAS = "measurements/measurements.py"
DIST = "distributions/_measurement_outcome_distribution.py"
WF = "wavefunction.py"
OIO = "operators/_io.py"

B("C20", "simplify-edits-term-in-place", (OPS, "                    terms.append(term_list[0].copy(new_coefficient=coeff))", "                    term_list[0].coefficient = coeff\n                    terms.append(term_list[0])"), rule="C20-D1")
B("C20", "get-counts-sorts-alias", (MEAS, "        bitstrings = convert_tuples_to_bitstrings(self.bitstrings)\n        return dict(Counter(bitstrings))", "        raw = self.bitstrings\n        raw.sort()\n        bitstrings = convert_tuples_to_bitstrings(raw)\n        return dict(Counter(bitstrings))"), rule="C20-D1")
B("C20", "append-mutates-through-callee", (CIR, """    n_qubits_by_operation = max(other.qubit_indices) + 1
    return type(circuit)(
        operations=[*circuit.operations, other],
        n_qubits=max(circuit.n_qubits, n_qubits_by_operation),
    )""", """    n_qubits_by_operation = max(other.qubit_indices) + 1
    circuit.operations.append(other)
    return type(circuit)(
        operations=[*circuit.operations],
        n_qubits=max(circuit.n_qubits, n_qubits_by_operation),
    )"""), rule="C20-D1")
B("C20", "subdistribution-pops-source", (DIST, "new_counts[new_key] = self.distribution_dict[key] + new_counts.get(", "new_counts[new_key] = self.distribution_dict.pop(key) + new_counts.get("), rule="C20-D1")
B("C20", "probabilities-squared-in-place", (WF, "        return np.abs(self.amplitudes) ** 2", "        amps = self.amplitudes\n        amps **= 2\n        return np.abs(amps)"), rule="C20-D1")
B("C20", "op-to-dict-sorts-terms", (OIO, "    for term in op.terms:\n        term_dict: Dict[str, Any] = {", "    op.terms.sort(key=str)\n    for term in op.terms:\n        term_dict: Dict[str, Any] = {"), rule="C20-D1")
B("C20", "expectation-values-reverses-operator", (MEAS, "        bitstring_frequencies = self.get_counts()\n        num_measurements = len(self.bitstrings)\n\n        # Perform weighted average", "        bitstring_frequencies = self.get_counts()\n        num_measurements = len(self.bitstrings)\n        ising_operator.terms.reverse()\n\n        # Perform weighted average"), rule="C20-D1")
B("C20", "ctor-normalises-callers-dict", (DIST, """    res_dict: Dict[Union[str, Tuple[int, ...]], float] = {}
    for key, value in input_dict.items():""", """    res_dict: Dict[Union[str, Tuple[int, ...]], float] = {}
    if all(isinstance(key, tuple) for key in input_dict):
        return input_dict
    for key, value in input_dict.items():"""), rule="C20-D1")
B("C20", "unfreeze-dagger", (GAT, "@dataclass(frozen=True)\nclass Dagger(Gate):", "@dataclass\nclass Dagger(Gate):"), rule="C20-D2")
B("C20", "setattr-bypass-in-bind", (GAT, "    def bind(self, symbols_map) -> \"MatrixFactoryGate\":\n        return self.replace_params(", "    def bind(self, symbols_map) -> \"MatrixFactoryGate\":\n        object.__setattr__(self, \"params\", tuple(self.params))\n        return self.replace_params("), rule="C20-D2")
B("C20", "circuit-keeps-callers-list", (CIR, "self._operations = list(operations) if operations is not None else []", "self._operations = operations if operations is not None else []"), rule="C20-D3")
B("C20", "memo-unguarded", (OPS, "        if not hasattr(self, \"_is_ising\"):\n            self._is_ising = all([term.is_ising for term in self.terms])", "        self._is_ising = all([term.is_ising for term in self.terms])"), rule="C20-D1")
B("C20", "bind-returns-self-when-no-symbols", (CIR, "        return type(self)(\n            operations=[op.bind(symbols_map) for op in self.operations],", "        if not symbols_map:\n            return self\n        return type(self)(\n            operations=[op.bind(symbols_map) for op in self.operations],"), rule="C20-D3")
T("C20", "twin-sort-a-copy", (MEAS, "        bitstrings = convert_tuples_to_bitstrings(self.bitstrings)\n        return dict(Counter(bitstrings))", "        raw = list(self.bitstrings)\n        raw.sort()\n        bitstrings = convert_tuples_to_bitstrings(raw)\n        return dict(Counter(bitstrings))"))
T("C20", "twin-simplify-copy-then-edit", (OPS, "                    terms.append(term_list[0].copy(new_coefficient=coeff))", "                    merged = term_list[0].copy()\n                    merged.coefficient = coeff\n                    terms.append(merged)"))
T("C20", "twin-new-memo-free-property", (OPS, "        return set(self._ops.keys())", "        qubits = set(self._ops.keys())\n        qubits.discard(-1)\n        return qubits"))

# ----------------------------------------------------------------------------- C17
NLL = "distributions/clipped_negative_log_likelihood.py"
JS = "distributions/jensen_shannon_divergence.py"

B("C17", "pop-in-subdistribution", (DIST, "new_counts[new_key] = self.distribution_dict[key] + new_counts.get(", "new_counts[new_key] = self.distribution_dict.pop(key) + new_counts.get("), rule="C17-D2")
B("C17", "store-before-validating", (DIST, """        preprocessed_input_dict = preprocess_distibution_dict(input_dict)

        if is_measurement_outcome_distribution(""", """        preprocessed_input_dict = preprocess_distibution_dict(input_dict)
        self.distribution_dict = preprocessed_input_dict

        if is_measurement_outcome_distribution("""), rule="C17-D1")
B("C17", "store-callers-dict", (DIST, """            if is_normalized(preprocessed_input_dict):
                self.distribution_dict = preprocessed_input_dict""", """            if is_normalized(preprocessed_input_dict):
                self.distribution_dict = input_dict"""), rule="C17-D1")
B("C17", "drop-nonneg-conjunct", (DIST, "        and _is_non_negative(input_dict)\n", ""), rule="C17-D1")
B("C17", "drop-keylength-conjunct", (DIST, "        and _is_key_length_fixed(input_dict)\n", ""), rule="C17-D1")
B("C17", "nonneg-strictness-flipped", (DIST, "    return all(value >= 0 for value in input_dict.values())", "    return any(value >= 0 for value in input_dict.values())"), rule="C17-D1")
B("C17", "invalid-input-warns-only", (DIST, """            raise RuntimeError(
                "Initialization of MeasurementOutcomeDistribution object FAILED: "
                "the input dictionary is not a non-negative integer sequence "
                "probability distribution. Check keys (same-length non-negative integer"
                " tuples) and values (non-negative floats)."
            )""", """            warnings.warn("input is not a valid distribution")
            self.distribution_dict = preprocessed_input_dict"""), rule="C17-D1")
B("C17", "normalise-branch-inverted", (DIST, "                if normalize:\n                    self.distribution_dict = normalize_measurement_outcome_distribution(", "                if not normalize:\n                    self.distribution_dict = normalize_measurement_outcome_distribution("), rule="C17-D1")
B("C17", "js-not-symmetric", (JS, """        + compute_clipped_negative_log_likelihood(
            measured_distribution, target_distribution, distance_measure_parameters
        )""", """        + compute_clipped_negative_log_likelihood(
            target_distribution, measured_distribution, distance_measure_parameters
        )"""), rule="C17-D3")
B("C17", "nll-consumes-epsilon", (NLL, 'epsilon = distance_measure_parameters.get("epsilon", 1e-9)', 'epsilon = distance_measure_parameters.pop("epsilon", 1e-9)'), rule="C17-D2")
B("C17", "sorted-projection", (DIST, 'new_key = tuple(key[i] for i in active_qubits)', 'new_key = tuple(key[i] for i in sorted(active_qubits))'), rule="C17-D4")
B("C17", "overwrite-instead-of-sum", (DIST, """            new_counts[new_key] = self.distribution_dict[key] + new_counts.get(
                new_key, 0
            )""", "            new_counts[new_key] = self.distribution_dict[key]"), rule="C17-D4")
B("C17", "duplicate-guard-removed", (DIST, """        if len(active_qubits) != len(set(active_qubits)):
            raise ValueError("There exist duplicate indices in the active qubit list")
""", ""), rule="C17-D4")
B("C17", "loader-key-renamed", (DIST, """        distribution = MeasurementOutcomeDistribution(
            data["measurement_outcome_distribution"]
        )""", """        distribution = MeasurementOutcomeDistribution(
            data["outcome_distribution"]
        )"""), rule="C17-D5")
T("C17", "twin-js-reordered-sum", (JS, """        compute_clipped_negative_log_likelihood(
            target_distribution, measured_distribution, distance_measure_parameters
        )
        / 2
        + compute_clipped_negative_log_likelihood(
            measured_distribution, target_distribution, distance_measure_parameters
        )
        / 2""", """        compute_clipped_negative_log_likelihood(
            measured_distribution, target_distribution, distance_measure_parameters
        )
        / 2
        + compute_clipped_negative_log_likelihood(
            target_distribution, measured_distribution, distance_measure_parameters
        )
        / 2"""))
T("C17", "twin-guard-as-not", (DIST, "        if is_measurement_outcome_distribution(\n            preprocessed_input_dict\n        ):  # accept the input dict only if it is a prob distribution", "        if is_measurement_outcome_distribution(preprocessed_input_dict):"))

# ----------------------------------------------------------------------------- C16
EVO = "evolution.py"
B("C16", "one-sided-guard", (EVO, "if abs(term.coefficient.imag) > 1e-9:", "if term.coefficient.imag > 1e-9:"), rule="C16-D1")
B("C16", "guard-after-construction", (EVO, """    if abs(term.coefficient.imag) > 1e-9:
        raise ValueError("Coefficients of terms must be real for Trotterization.")

    for i, qubit_id in enumerate(qubit_indices):""", """    if qubit_indices and term[qubit_indices[0]] == "X":
        basis_change += H(qubit_indices[0])
        qubit_indices = qubit_indices[1:] + qubit_indices[:1]
    if abs(term.coefficient.imag) > 1e-9:
        raise ValueError("Coefficients of terms must be real for Trotterization.")

    for i, qubit_id in enumerate(qubit_indices):"""), rule="C16-D1")
B("C16", "guard-warns-only", (EVO, """        raise ValueError("Coefficients of terms must be real for Trotterization.")""", """        warnings.warn("Coefficients of terms must be real for Trotterization.")"""), rule="C16-D1")
B("C16", "time-times-steps", (EVO, "            circuit += time_evolution_for_term(term, time / n_steps)", "            circuit += time_evolution_for_term(term, time * n_steps)"), rule="C16-D2")
B("C16", "reversed-terms", (EVO, "        for term in hamiltonian.terms:\n            circuit += time_evolution_for_term", "        for term in reversed(hamiltonian.terms):\n            circuit += time_evolution_for_term"), rule="C16-D2")
B("C16", "inverse-on-the-left", (EVO, "circuit = basis_change + all_z_rotation + basis_change.inverse()", "circuit = basis_change.inverse() + all_z_rotation + basis_change"), rule="C16-D2")
B("C16", "ladder-not-inverted", (EVO, "all_z_rotation = cnot_gates + central_gate + cnot_gates.inverse()", "all_z_rotation = cnot_gates + central_gate + cnot_gates"), rule="C16-D2")
B("C16", "angle-missing-factor-two", (EVO, "central_gate = RZ(2 * time * term.coefficient.real)(qubit_id)", "central_gate = RZ(time * term.coefficient.real)(qubit_id)"), rule="C16-D2")
B("C16", "y-basis-wrong-angle", (EVO, "basis_change += RX(np.pi / 2)(qubit_id)", "basis_change += RX(np.pi)(qubit_id)"), rule="C16-D2")
B("C16", "unsorted-qubits", (EVO, "    qubit_indices = sorted(term.qubits)", "    qubit_indices = list(term.qubits)"), rule="C16-D2")
B("C16", "method-guard-dropped-derivatives", (EVO, """    if method != "Trotter":
        raise ValueError(f"The method {method} is currently not supported.")
""", ""), rule="C16-D3")
B("C16", "repeated-step-full-time", (EVO, "hamiltonian, time / n_steps, method=\"Trotter\", n_steps=1", "hamiltonian, time, method=\"Trotter\", n_steps=1"), rule="C16-D4")
B("C16", "shift-uses-abs", (EVO, "shift = factor * (np.pi / (4.0 * r))", "shift = factor * (np.pi / (4.0 * abs(r)))"), rule="C16-D4")
B("C16", "unshifted-terms-full-time", (EVO, "(time + shift) / n_steps if i == j else time / n_steps,", "(time + shift) / n_steps if i == j else time,"), rule="C16-D4")
B("C16", "only-positive-shift", (EVO, "    factors = [1.0, -1.0]", "    factors = [1.0, 1.0]"), rule="C16-D4")
B("C16", "splice-off-by-one", (EVO, "repeated_circuit if i != position else different_circuit", "repeated_circuit if i != position + 1 else different_circuit"), rule="C16-D4")
T("C16", "twin-guard-isclose", (EVO, "if abs(term.coefficient.imag) > 1e-9:", "if not np.isclose(term.coefficient.imag, 0.0, atol=1e-9):"))
T("C16", "twin-guard-mirrored", (EVO, "if abs(term.coefficient.imag) > 1e-9:", "if term.coefficient.imag > 1e-9 or term.coefficient.imag < -1e-9:"))
T("C16", "twin-angle-reordered", (EVO, "central_gate = RZ(2 * time * term.coefficient.real)(qubit_id)", "central_gate = RZ(term.coefficient.real * time * 2.0)(qubit_id)"))
T("C16", "twin-shift-rewritten", (EVO, "shift = factor * (np.pi / (4.0 * r))", "shift = factor * np.pi / 4 / r"))
B("C16", "repeated-step-is-whole-evolution", (EVO, "hamiltonian, time / n_steps, method=\"Trotter\", n_steps=1", "hamiltonian, time, method=\"Trotter\", n_steps=n_steps"), rule="C16-D4")

# ----------------------------------------------------------------------------- C14
RUN = "api/circuit_runner.py"
TRK = "runners/trackers.py"
B("C14", "tracker-bumps-before-inner", (TRK, """        measurements = self.inner_backend.run_batch_and_measure(circuits, n_samples)
        self._n_circuits_executed += len(circuits)
        self._n_jobs_executed += 1
""", """        self._n_circuits_executed += len(circuits)
        self._n_jobs_executed += 1
        measurements = self.inner_backend.run_batch_and_measure(circuits, n_samples)
"""), rule="C14-D2")
B("C14", "guard-strict-less-than-zero", (RUN, "        if n_samples <= 0:\n            raise ValueError(f\"Number of samples has to be positive, got {n_samples}\")\n        result = self._run_and_measure(circuit, n_samples)\n        self._n_circuits_executed += 1", "        if n_samples < 0:\n            raise ValueError(f\"Number of samples has to be positive, got {n_samples}\")\n        result = self._run_and_measure(circuit, n_samples)\n        self._n_circuits_executed += 1"), rule="C14-D1")
B("C14", "length-guard-deleted", (RUN, """        if len(samples_per_circuit) != len(circuits_batch):
            raise ValueError(
                "Number of samples has to be an integer or a sequence of length "
                "equal to the length of batch. Length of batch: "
                f"{len(circuits_batch)}, length of n_samples: "
                f"{len(samples_per_circuit)}."
            )
""", ""), rule="C14-D1")
B("C14", "positivity-only-for-int", (RUN, '        if (isinstance(n_samples, int) and n_samples <= 0) or any(\n            n <= 0 for n in samples_per_circuit\n        ):', "        if isinstance(n_samples, int) and n_samples <= 0:"), rule="C14-D1")
B("C14", "bump-before-hook", (RUN, """        result = self._run_and_measure(circuit, n_samples)
        self._n_circuits_executed += 1
        self._n_jobs_executed += 1
        return result""", """        self._n_circuits_executed += 1
        self._n_jobs_executed += 1
        result = self._run_and_measure(circuit, n_samples)
        return result"""), rule="C14-D4")
B("C14", "bump-above-guard", (RUN, """        if n_samples <= 0:
            raise ValueError(f"Number of samples has to be positive, got {n_samples}")
        result = self._run_and_measure(circuit, n_samples)
        self._n_circuits_executed += 1
        self._n_jobs_executed += 1""", """        self._n_jobs_executed += 1
        if n_samples <= 0:
            raise ValueError(f"Number of samples has to be positive, got {n_samples}")
        result = self._run_and_measure(circuit, n_samples)
        self._n_circuits_executed += 1"""), rule="C14-D2")
B("C14", "counter-decrement", (RUN, "        self._n_jobs_executed += 1\n        return result", "        self._n_jobs_executed -= 1\n        return result"), rule="C14-D3")
B("C14", "simulator-guard-removed", (SIM, """        if n_samples <= 0:
            raise ValueError(f"Number of samples has to be positive, got {n_samples}")
        result = self._run_and_measure(circuit, n_samples)
        return result""", """        result = self._run_and_measure(circuit, n_samples)
        return result"""), rule="C14-D1")
B("C14", "jobs-only-for-native", (SIM, """            self._n_jobs_executed += 1
            if is_supported:
                self._n_circuits_executed += 1""", """            if is_supported:
                self._n_jobs_executed += 1
                self._n_circuits_executed += 1"""), rule="C14-D4")
B("C14", "tracker-returns-copy", (TRK, "        self.save_raw_data()\n        return measurement\n", "        self.save_raw_data()\n        return Measurements(list(measurement.bitstrings))\n"), rule="C14-D5")
B("C14", "tracker-records-requested-shots", (TRK, '"number_of_shots": len(measurement.bitstrings),', '"number_of_shots": len(circuit.operations),'), rule="C14-D5")
B("C14", "tracker-batch-misaligned", (TRK, "        for circuit, measurement in zip(circuits, measurements):", "        for circuit, measurement in zip(circuits, reversed(measurements)):"), rule="C14-D5")
B("C14", "tracker-distribution-default-shots", (TRK, """        distribution = self.inner_backend.get_measurement_outcome_distribution(
            circuit, n_samples
        )""", """        distribution = self.inner_backend.get_measurement_outcome_distribution(
            circuit, n_samples or 1000
        )"""), rule="C14-D")
B("C14", "batch-hook-misaligned", (RUN, "            for circuit, n in zip(batch, samples_per_circuit)", "            for circuit, n in zip(batch, sorted(samples_per_circuit))"), rule="C14-D4")
B("C14", "counter-written-by-estimation", ("estimation/_estimation.py", "        measurements_list = runner.run_batch_and_measure(circuits, shots_per_circuit)", "        measurements_list = runner.run_batch_and_measure(circuits, shots_per_circuit)\n        runner._n_jobs_executed = 0"), rule="C14-D3")
T("C14", "twin-guard-less-than-one", (RUN, "        if n_samples <= 0:\n            raise ValueError(f\"Number of samples has to be positive, got {n_samples}\")\n        result = self._run_and_measure(circuit, n_samples)\n        self._n_circuits_executed += 1", "        if n_samples < 1:\n            raise ValueError(f\"Number of samples has to be positive, got {n_samples}\")\n        result = self._run_and_measure(circuit, n_samples)\n        self._n_circuits_executed += 1"))
T("C14", "twin-guard-not-positive", (RUN, '        if (isinstance(n_samples, int) and n_samples <= 0) or any(\n            n <= 0 for n in samples_per_circuit\n        ):', "        if (isinstance(n_samples, int) and n_samples <= 0) or not all(n > 0 for n in samples_per_circuit):"))

# ----------------------------------------------------------------------------- C08
GENS = "circuits/_generators.py"
B("C08", "inverse-not-reversed", (CIR, "                    for op in reversed(self.operations)\n                ],", "                    for op in self.operations\n                ],"), rule="C08-D1")
B("C08", "inverse-keeps-gate", (CIR, "                    op.gate.dagger(*op.qubit_indices)", "                    op.gate(*op.qubit_indices)"), rule="C08-D1")
B("C08", "inverse-reverses-indices", (CIR, "                    op.gate.dagger(*op.qubit_indices)", "                    op.gate.dagger(*reversed(op.qubit_indices))"), rule="C08-D1")
B("C08", "inverse-drops-width", (CIR, """                    for op in reversed(self.operations)
                ],
                n_qubits=self.n_qubits,
            )""", """                    for op in reversed(self.operations)
                ],
            )"""), rule="C08-D1")
B("C08", "controlled-drops-width", (CIR, "return Circuit(c_ops, n_qubits=max(self.n_qubits, control_index) + 1)", "return Circuit(c_ops)"), rule="C08-D2")
B("C08", "controlled-width-not-widened", (CIR, "return Circuit(c_ops, n_qubits=max(self.n_qubits, control_index) + 1)", "return Circuit(c_ops, n_qubits=self.n_qubits)"), rule="C08-D2")
B("C08", "control-last", (CIR, "new_indices_with_control = (control_index, *new_indices)", "new_indices_with_control = (*new_indices, control_index)"), rule="C08-D2")
B("C08", "shift-strictly-above", (CIR, "new_indices = (i + 1 if i >= control_index else i for i in op.qubit_indices)", "new_indices = (i + 1 if i > control_index else i for i in op.qubit_indices)"), rule="C08-D2")
B("C08", "controlled-cached-by-name", (CIR, """        c_ops = []
        for op in self.operations:
            controlled_op = op.gate.controlled(1)""", """        c_ops = []
        cache = {}
        for op in self.operations:
            key = (op.gate.name, op.gate.params)
            if key not in cache:
                cache[key] = op.gate.controlled(1)
            controlled_op = cache[key]"""), rule="C08-D2")
B("C08", "two-controls", (CIR, "controlled_op = op.gate.controlled(1)", "controlled_op = op.gate.controlled(2)"), rule="C08-D2")
B("C08", "loop-over-raw-collection", (GENS, "        for qubit in unique_qubit_idx:\n            circuit += gate_factory(qubit)", "        for qubit in qubit_indices:\n            circuit += gate_factory(qubit)"), rule="C08-D3")
B("C08", "ancilla-index-from-extended", (GENS, "qubit_index = circuit.n_qubits + ancilla_qubit_i", "qubit_index = extended_circuit.n_qubits + ancilla_qubit_i"), rule="C08-D3")
B("C08", "generator-appends-in-place", (GENS, "        for qubit in unique_qubit_idx:\n            circuit += gate_factory(qubit)", "        for qubit in unique_qubit_idx:\n            circuit._operations.append(gate_factory(qubit))"), rule="C08-D3")
B("C08", "layer-skips-last-qubit", (GENS, "circuit, range(number_of_qubits), gate_factory, parameters", "circuit, range(number_of_qubits - 1), gate_factory, parameters"), rule="C08-D3")
B("C08", "ancilla-off-by-one-count", (GENS, "for ancilla_qubit_i in range(n_ancilla_qubits):", "for ancilla_qubit_i in range(n_ancilla_qubits + 1):"), rule="C08-D3")
T("C08", "twin-shift-as-addition-of-bool", (CIR, "new_indices = (i + 1 if i >= control_index else i for i in op.qubit_indices)", "new_indices = (i + int(i >= control_index) for i in op.qubit_indices)"))
T("C08", "twin-inverse-slice", (CIR, "                    for op in reversed(self.operations)\n                ],", "                    for op in self.operations[::-1]\n                ],"))
T("C08", "twin-width-max-of-sums", (CIR, "n_qubits=max(self.n_qubits, control_index) + 1", "n_qubits=max(self.n_qubits + 1, control_index + 1)"))

# ----------------------------------------------------------------------------- C18
DECM = "decompositions/_decomposition.py"
ORQD = "decompositions/_orquestra_decompositions.py"
MAT = "circuits/_matrices.py"
# note: the controlled-U3 phase drop (known finding) is a violation on every variant below as well;
# the self-test looks at the *rule* that must additionally fire
B("C18", "all-rules-instead-of-remaining", (DECM, "for decomposed_op in decompose_operation(op, remaining_rules)", "for decomposed_op in decompose_operation(op, decomposition_rules[1:][1:])"), rule="C18-D1")
B("C18", "first-match-wins", (DECM, """    return [
        decomposed_op
        for op in new_operations_to_decompose
        for decomposed_op in decompose_operation(op, remaining_rules)
    ]""", """    if current_rule.predicate(operation):
        return list(new_operations_to_decompose)
    return [
        decomposed_op
        for op in new_operations_to_decompose
        for decomposed_op in decompose_operation(op, remaining_rules)
    ]"""), rule="C18-D1")
B("C18", "non-matching-op-dropped", (DECM, "        else [operation]\n    )", "        else []\n    )"), rule="C18-D1")
B("C18", "empty-rules-returns-nothing", (DECM, "    if not decomposition_rules:\n        return [operation]", "    if not decomposition_rules:\n        return []"), rule="C18-D1")
B("C18", "decompose-drops-width", (ORQD, """    return Circuit(
        decompose_operations(circuit.operations, decomposition_rules),
        n_qubits=circuit.n_qubits,
    )""", "    return Circuit(decompose_operations(circuit.operations, decomposition_rules))"), rule="C18-D2")
B("C18", "production-not-reversed", (ORQD, "        return reversed(gate_operation_decomposition)", "        return gate_operation_decomposition"), rule="C18-D4")
B("C18", "angles-wrapped-mod-2pi", (ORQD, "        gate_decomposition = [RZ(phi), RY(theta), RZ(lambda_)]", "        gate_decomposition = [RZ(phi % 6.283185307179586), RY(theta), RZ(lambda_)]"), rule="C18-D4")
B("C18", "phi-lambda-swapped", (ORQD, "        gate_decomposition = [RZ(phi), RY(theta), RZ(lambda_)]", "        gate_decomposition = [RZ(lambda_), RY(theta), RZ(phi)]"), rule="C18-D4")
B("C18", "single-control-only", (ORQD, "gate.controlled(operation.gate.num_control_qubits)", "gate.controlled(1)"), rule="C18-D4")
B("C18", "unpack-order-changed", (ORQD, "        theta, phi, lambda_ = operation.params", "        phi, theta, lambda_ = operation.params"), rule="C18-D4")
T("C18", "twin-compensating-phase-gate", (ORQD, "        return reversed(gate_operation_decomposition)", """        if isinstance(operation.gate, ControlledGate):
            from ..circuits._builtin_gates import PHASE

            controls = operation.qubit_indices[: operation.gate.num_control_qubits]
            phase = PHASE((phi + lambda_) / 2)
            if len(controls) > 1:
                phase = phase.controlled(len(controls) - 1)
            gate_operation_decomposition.insert(0, phase(*controls))
        return reversed(gate_operation_decomposition)"""))
T("C18", "twin-statement-form-selection", (DECM, """    new_operations_to_decompose = (
        current_rule.production(operation)
        if current_rule.predicate(operation)
        else [operation]
    )""", """    new_operations_to_decompose = current_rule.production(operation) if current_rule.predicate(operation) else [operation]"""))

# ----------------------------------------------------------------------------- C05
SER = "circuits/_serde.py"
BLT = "circuits/_builtin_gates.py"
B("C05", "exponent-key-renamed-on-writer", (SER, '        "exponent": gate.exponent,', '        "power": gate.exponent,'), rule="C05-D")
B("C05", "num-control-qubits-not-written", (SER, '        "num_control_qubits": gate.num_control_qubits,\n', ''), rule="C05-D")
B("C05", "power-reader-wrong-key", (SER, 'return _gates.Power(wrapped_gate, dict_["exponent"])', 'return _gates.Power(wrapped_gate, dict_["num_control_qubits"])'), rule="C05-D")
B("C05", "dagger-arm-dropped", (SER, """@to_dict.register
def _dagger_gate_to_dict(gate: _gates.Dagger):""", """def _dagger_gate_to_dict(gate: _gates.Dagger):"""), rule="C05-D2")
B("C05", "map-iterator-restored", (SER, '    symbol_names = dict_.get("free_symbols", [])\n    return gate_def(', '    symbol_names = map(str, dict_.get("free_symbols", []))\n    return gate_def('), rule="C05-D5")
B("C05", "custom-params-with-definition-names", (SER, '    symbol_names = dict_.get("free_symbols", [])\n    return gate_def(', '    symbol_names = [serialize_expr(s) for s in gate_def.params_ordering]\n    return gate_def('), rule="C05-D")
B("C05", "dagger-routed-by-contains", (SER, 'elif dict_["name"].endswith(_gates.DAGGER_GATE_NAME):', 'elif _gates.DAGGER_GATE_NAME in dict_["name"]:'), rule="C05-D4")
B("C05", "power-test-before-dagger", (SER, """    elif dict_["name"].endswith(_gates.DAGGER_GATE_NAME):
        wrapped_gate = _gate_from_dict(dict_["wrapped_gate"], custom_gate_defs)
        return _gates.Dagger(wrapped_gate)

    elif dict_["name"] == _gates.EXPONENTIAL_GATE_NAME:
        wrapped_gate = _gate_from_dict(dict_["wrapped_gate"], custom_gate_defs)
        return _gates.Exponential(wrapped_gate)

    elif _gates.POWER_GATE_SYMBOL in dict_["name"]:
        wrapped_gate = _gate_from_dict(dict_["wrapped_gate"], custom_gate_defs)
        return _gates.Power(wrapped_gate, dict_["exponent"])
""", """    elif _gates.POWER_GATE_SYMBOL in dict_["name"]:
        wrapped_gate = _gate_from_dict(dict_["wrapped_gate"], custom_gate_defs)
        return _gates.Power(wrapped_gate, dict_["exponent"])

    elif dict_["name"].endswith(_gates.DAGGER_GATE_NAME):
        wrapped_gate = _gate_from_dict(dict_["wrapped_gate"], custom_gate_defs)
        return _gates.Dagger(wrapped_gate)

    elif dict_["name"] == _gates.EXPONENTIAL_GATE_NAME:
        wrapped_gate = _gate_from_dict(dict_["wrapped_gate"], custom_gate_defs)
        return _gates.Exponential(wrapped_gate)
"""), rule="C05-D4")
B("C05", "mutable-default-symbol-table", (SER, """def deserialize_expr(expr_str, symbol_names):
    symbols_map: Dict[str, sympy.Symbol] = {}
""", """def deserialize_expr(expr_str, symbol_names, symbols_map: Dict[str, sympy.Symbol] = {}):
"""), rule="C05-D5")
B("C05", "indexed-symbols-as-items-of-their-base", (SER, """        if re.search(r"^(.*)\\[([0-9]+)\\]$", name):
            placeholder = f"_indexed_symbol_{position}_"
            expr_str = re.sub(r"(?<![\\w.])" + re.escape(name), placeholder, expr_str)
            symbols_map[placeholder] = sympy.Symbol(name)
""", """        match = re.search(r"^(.*)\\[([0-9]+)\\]$", name)
        if match:
            symbols_map.setdefault(match.group(1), {})[int(match.group(2))] = sympy.Symbol(name)
"""), rule="C05-D5")
B("C05", "n-qubits-conditional", (SER, '        "n_qubits": circuit.n_qubits,\n', '        **({"n_qubits": circuit.n_qubits} if circuit.operations else {}),\n'), rule="C05-D1")
B("C05", "wrapped-definitions-not-threaded", (SER, """    if dict_["name"] == _gates.CONTROLLED_GATE_NAME:
        wrapped_gate = _gate_from_dict(dict_["wrapped_gate"], custom_gate_defs)""", """    if dict_["name"] == _gates.CONTROLLED_GATE_NAME:
        wrapped_gate = _gate_from_dict(dict_["wrapped_gate"], [])"""), rule="C05-D3")
B("C05", "operations-reversed-on-read", (SER, '            for op_dict in dict_.get("operations", [])', '            for op_dict in reversed(dict_.get("operations", []))'), rule="C05-D3")
B("C05", "builtin-gate-renamed", (BLT, 'SX = _gates.MatrixFactoryGate("SX", _matrices.sx_matrix, (), 1)', 'SX = _gates.MatrixFactoryGate("SQRT_X", _matrices.sx_matrix, (), 1)'), rule="C05-D4")
B("C05", "sympify-without-locals", (SER, "    return sympy.sympify(expr_str, locals=symbols_map)", "    return sympy.sympify(expr_str)"), rule="C05-D5")
B("C05", "free-symbols-dropped-by-writer", (SER, """        **(
            {"free_symbols": sorted(map(str, gate.free_symbols))}
            if gate.free_symbols
            else {}
        ),
""", ""), rule="C05-D")
B("C05", "custom-reader-before-wrappers", (SER, """    try:
        return _special_gate_from_dict(dict_, custom_gate_defs)
    except KeyError:
        pass

    return _custom_gate_instance_from_dict(dict_, custom_gate_defs)""", """    try:
        return _custom_gate_instance_from_dict(dict_, custom_gate_defs)
    except ValueError:
        pass

    return _special_gate_from_dict(dict_, custom_gate_defs)"""), rule="C05-D4")
T("C05", "twin-get-vs-guarded-subscript", (SER, '        for def_dict in dict_.get("custom_gate_definitions", [])', '        for def_dict in (dict_["custom_gate_definitions"] if "custom_gate_definitions" in dict_ else [])'))
T("C05", "twin-keys-reordered", (SER, """        "name": gate.name,
        "wrapped_gate": to_dict(gate.wrapped_gate),
        "exponent": gate.exponent,""", """        "exponent": gate.exponent,
        "name": gate.name,
        "wrapped_gate": to_dict(gate.wrapped_gate),"""))

# ----------------------------------------------------------------------------- C11
UTL = "utils.py"
EXV = "measurements/expectation_values.py"
PAR = "measurements/parities.py"
LAY = "circuits/layouts.py"
B("C11", "nmeas-frame-meas-required-again", (UTL, """    frame_meas = (
        convert_dict_to_array(data["frame_meas"]) if "frame_meas" in data else None
    )""", """    frame_meas = convert_dict_to_array(data["frame_meas"])"""), rule="C11-D1")
B("C11", "nmeas-path-only", (UTL, "    with ensure_open(filename) as f:\n        data = json.load(f)\n\n    frame_meas", "    with open(filename, \"r\") as f:\n        data = json.load(f)\n\n    frame_meas"), rule="C11-D2")
B("C11", "parser-rejects-bare-identity", (OPS, 'match = re.match(r"([XYZ])([0-9]+)$|(I)([0-9]*)$", op_str, re.I)', 'match = re.match(r"([XYZI])([0-9]+)$", op_str, re.I)'), rule="C11-D3")
B("C11", "printer-rounds-coefficient", (OPS, """        return f"{self.coefficient}*{'*'.join(term_strs)}\"""", """        return f"{round(self.coefficient, 6)}*{'*'.join(term_strs)}\""""), rule="C11-D3")
B("C11", "printer-new-token-shape", (OPS, 'term_strs = [f"{self[index]}{index}" for index in self._ops]', 'term_strs = [f"{self[index]}_{index}" for index in self._ops]'), rule="C11-D3")
B("C11", "covariances-nested-under-correlations", (EXV, """        if self.estimator_covariances is not None:
            data["estimator_covariances"] = []
            for covariance_matrix in self.estimator_covariances:
                data["estimator_covariances"].append(
                    convert_array_to_dict(covariance_matrix)
                )
""", """            if self.estimator_covariances:
                data["estimator_covariances"] = []
                for covariance_matrix in self.estimator_covariances:
                    data["estimator_covariances"].append(
                        convert_array_to_dict(covariance_matrix)
                    )
"""), rule="C11-D1g")
B("C11", "expectation-values-key-renamed-on-reader", (EXV, 'expectation_values = convert_dict_to_array(dictionary["expectation_values"])', 'expectation_values = convert_dict_to_array(dictionary["values"])'), rule="C11-D1")
B("C11", "parities-correlations-required", (PAR, """        if data.get("correlations") is not None:
            correlations: Optional[List] = [
                convert_dict_to_array(arr) for arr in data["correlations"]
            ]
        else:
            correlations = None""", """        correlations: Optional[List] = [
            convert_dict_to_array(arr) for arr in data["correlations"]
        ]"""), rule="C11-D1")
B("C11", "imag-part-never-written", (UTL, """        dictionary["real"] = array.real.tolist()
        dictionary["imag"] = array.imag.tolist()""", """        dictionary["real"] = array.real.tolist()"""), rule="C11-D1")
B("C11", "list-loader-path-only", (UTL, """    if isinstance(file, (str, os.PathLike)):
        with open(file, "r") as f:
            data = json.load(f)
    else:
        data = json.load(file)  # type: ignore

    return data["list"]""", """    with open(file, "r") as f:
        data = json.load(f)

    return data["list"]"""), rule="C11-D2")
B("C11", "qubit-op-slots-swapped-on-writer", (OIO, '"pauli_ops": [{"qubit": op[0], "op": op[1]} for op in term.operations]', '"pauli_ops": [{"qubit": op[1], "op": op[0]} for op in term.operations]'), rule="C11-D4")
B("C11", "imag-sign-flipped-on-read", (OIO, '            coefficient += 1j * term_dict["coefficient"]["imag"]', '            coefficient = coefficient.real'), rule="C11-D4")
B("C11", "layers-tuples-not-restored", (LAY, '        layers = [[tuple(x) for x in layer] for layer in data["layers"]]', '        layers = [[x for x in layer] for layer in data["layers"]]'), rule="C11-D4")
B("C11", "precision-dropped-by-writer", (UTL, """        if type(self.precision).__module__ == np.__name__:
            data["precision"] = self.precision.item()
        else:
            data["precision"] = self.precision
""", ""), rule="C11-D1")
B("C11", "loader-uses-wrong-class", (PAR, "    return Parities.from_dict(data)", "    return data"), rule="C11-D2")
T("C11", "twin-loader-ensure-open", (UTL, """    if isinstance(file, (str, os.PathLike)):
        with open(file, "r") as f:
            data = json.load(f)
    else:
        data = json.load(file)  # type: ignore

    return data["list"]""", """    with ensure_open(file) as f:
        data = json.load(f)

    return data["list"]"""))
T("C11", "twin-reader-get-with-guard", (EXV, """        if dictionary.get("correlations") is not None:
            correlations = []
            for correlation_matrix in cast(Iterable, dictionary.get("correlations")):""", """        if "correlations" in dictionary and dictionary["correlations"] is not None:
            correlations = []
            for correlation_matrix in dictionary["correlations"]:"""))

# ----------------------------------------------------------------------------- C12
B("C12", "restore-line-deleted", (WF, "            self._amplitude_vector[idx] = old_val\n\n            raise ValueError", "            raise ValueError"), rule="C12-D2")
B("C12", "alias-instead-of-snapshot", (WF, """        old_val = copy(self._amplitude_vector[idx])
        self._amplitude_vector[idx] = val
""", """        old_val = self._amplitude_vector
        self._amplitude_vector[idx] = val
"""), rule="C12-D2")
B("C12", "check-before-write", (WF, """        old_val = copy(self._amplitude_vector[idx])
        self._amplitude_vector[idx] = val

        try:
            self._check_normalization(self._amplitude_vector)
        except ValueError:
            self._amplitude_vector[idx] = old_val

            raise ValueError("This assignment violates probability unity.")""", """        old_val = self._amplitude_vector[idx]
        try:
            self._check_normalization(self._amplitude_vector)
        except ValueError:
            self._amplitude_vector[idx] = old_val

            raise ValueError("This assignment violates probability unity.")
        self._amplitude_vector[idx] = val"""), rule="C12-D2")
B("C12", "rejection-swallowed", (WF, """            self._amplitude_vector[idx] = old_val

            raise ValueError("This assignment violates probability unity.")""", """            self._amplitude_vector[idx] = old_val
            warn("This assignment violates probability unity.")"""), rule="C12-D2")
B("C12", "constructor-check-dropped", (WF, "        self._check_normalization(self._amplitude_vector)\n\n    @property\n    def amplitudes", "    @property\n    def amplitudes"), rule="C12-D1")
B("C12", "size-test-after-store", (WF, """        if bin(len(amplitude_vector)).count("1") != 1:
            raise ValueError(
                "Provided wavefunction does not have a size of a power of 2."
            )

        try:
            self._amplitude_vector = np.asarray(amplitude_vector, dtype=complex)
        except TypeError:
            self._amplitude_vector = Matrix(amplitude_vector)
""", """        try:
            self._amplitude_vector = np.asarray(amplitude_vector, dtype=complex)
        except TypeError:
            self._amplitude_vector = Matrix(amplitude_vector)

        if bin(len(amplitude_vector)).count("1") != 1:
            warn("Provided wavefunction does not have a size of a power of 2.")
"""), rule="C12-D1")
B("C12", "bind-writes-field", (WF, """        try:
            return type(self)(result)
        except ValueError:
            raise ValueError("Passed map results in a violation of probability unity.")""", """        self._amplitude_vector = result
        return self"""), rule="C12-D3")
B("C12", "bind-bypasses-constructor", (WF, "            return type(self)(result)\n", "            new = Wavefunction.__new__(Wavefunction)\n            new._amplitude_vector = result\n            return new\n"), rule="C12-D3")
B("C12", "flip-writes-in-place", (WF, "    return Wavefunction(flip_amplitudes(wavefunction.amplitudes))", "    wavefunction._amplitude_vector = flip_amplitudes(wavefunction.amplitudes)\n    return wavefunction"), rule="C12-D3")
B("C12", "probe-with-float", (WF, "        complex(possible_number)\n        return True", "        float(possible_number)\n        return True"), rule="C12-D4")
B("C12", "symbolic-branch-nonstrict-wrong-bound", (WF, "            if probs_of_ground_entries > 1.0:", "            if probs_of_ground_entries > 2.0:"), rule="C12-D4")
B("C12", "numeric-check-inverted", (WF, "            if not np.isclose(probs_of_ground_entries, 1.0):", "            if np.isclose(probs_of_ground_entries, 0.0):"), rule="C12-D4")
B("C12", "probabilities-not-squared", (WF, "        return np.abs(self.amplitudes) ** 2", "        return np.abs(self.amplitudes)"), rule="C12-D4")
B("C12", "amplitudes-key-renamed-on-load", (WF, '    wavefunction = Wavefunction(convert_dict_to_array(data["amplitudes"]))', '    wavefunction = Wavefunction(convert_dict_to_array(data["amplitude"]))'), rule="C12-D5")
B("C12", "normalise-helper-in-getter", (WF, "    def get_probabilities(self) -> np.ndarray:\n        return", "    def get_probabilities(self) -> np.ndarray:\n        self._amplitude_vector /= np.linalg.norm(self._amplitude_vector)\n        return"), rule="C12-D3")
T("C12", "twin-rename-saved-value", (WF, """        old_val = copy(self._amplitude_vector[idx])
        self._amplitude_vector[idx] = val

        try:
            self._check_normalization(self._amplitude_vector)
        except ValueError:
            self._amplitude_vector[idx] = old_val
""", """        previous = copy(self._amplitude_vector[idx])
        self._amplitude_vector[idx] = val

        try:
            self._check_normalization(self._amplitude_vector)
        except ValueError:
            self._amplitude_vector[idx] = previous
"""))
T("C12", "twin-bind-named-class", (WF, "            return type(self)(result)\n", "            return Wavefunction(result)\n"))

# ----------------------------------------------------------------------------- C06
OPR = "circuits/_operations.py"
WOP = "circuits/_wavefunction_operations.py"
B("C06", "power-bind-returns-self", (GAT, """    def bind(self, symbols_map: Dict[sympy.Symbol, Parameter]) -> "Gate":
        raise NotImplementedError(
            "Gates raised to a power do not possess free symbols to bind",
        )""", """    def bind(self, symbols_map: Dict[sympy.Symbol, Parameter]) -> "Gate":
        return self"""), rule="C06-D1")
B("C06", "exponential-bind-conditional", (GAT, """    def bind(self, symbols_map) -> "Gate":
        raise NotImplementedError(
            "Gates exponential do not possess free symbols to bind"
        )""", """    def bind(self, symbols_map) -> "Gate":
        if symbols_map:
            raise NotImplementedError(
                "Gates exponential do not possess free symbols to bind"
            )
        return self"""), rule="C06-D1")
B("C06", "skip-numeric-looking-params", (GAT, """    def bind(self, symbols_map) -> "MatrixFactoryGate":
        return self.replace_params(
            tuple(sub_symbols(param, symbols_map) for param in self.params)
        )""", """    def bind(self, symbols_map) -> "MatrixFactoryGate":
        return self.replace_params(
            tuple(sub_symbols(param, symbols_map) for param in self.params if param in symbols_map)
        )"""), rule="C06-D2")
B("C06", "controlled-bind-single-control", (GAT, "return self.wrapped_gate.bind(symbols_map).controlled(self.num_control_qubits)", "return self.wrapped_gate.bind(symbols_map).controlled(1)"), rule="C06-D2")
B("C06", "dagger-bind-drops-dagger", (GAT, "        return self.wrapped_gate.bind(symbols_map).dagger\n", "        return self.wrapped_gate.bind(symbols_map)\n"), rule="C06-D2")
B("C06", "operation-bind-empty-map", (GAT, "return GateOperation(self.gate.bind(symbols_map), self.qubit_indices)", "return GateOperation(self.gate.bind({}), self.qubit_indices)"), rule="C06-D2")
B("C06", "circuit-bind-drops-width", (CIR, """            operations=[op.bind(symbols_map) for op in self.operations],
            n_qubits=self.n_qubits,
        )""", """            operations=[op.bind(symbols_map) for op in self.operations],
        )"""), rule="C06-D2")
B("C06", "circuit-bind-skips-nongates", (CIR, "operations=[op.bind(symbols_map) for op in self.operations],", "operations=[op.bind(symbols_map) for op in self.operations if isinstance(op, _gates.GateOperation)],"), rule="C06-D2")
B("C06", "symbol-arm-default-none", (OPR, "    return symbols_map.get(parameter, parameter)", "    return symbols_map.get(parameter)"), rule="C06-D3")
B("C06", "number-arm-casts", (OPR, """) -> Number:
    return parameter""", """) -> Number:
    return float(parameter)"""), rule="C06-D3")
B("C06", "free-symbols-via-atoms", (OPR, "        for symbol in param.free_symbols", "        for symbol in param.atoms(sympy.Symbol)"), rule="C06-D4")
B("C06", "power-free-symbols-empty", (GAT, """    @property
    def free_symbols(self) -> Iterable[sympy.Symbol]:
        return get_free_symbols(self.params)

    @property
    def num_qubits(self) -> int:
        return self.wrapped_gate.num_qubits

    @property
    def matrix(self) -> sympy.Matrix:
        return self.wrapped_gate.matrix**self.exponent""", """    @property
    def free_symbols(self) -> Iterable[sympy.Symbol]:
        return []

    @property
    def num_qubits(self) -> int:
        return self.wrapped_gate.num_qubits

    @property
    def matrix(self) -> sympy.Matrix:
        return self.wrapped_gate.matrix**self.exponent"""), rule="C06-D4")
B("C06", "circuit-free-symbols-sorted", (CIR, "        return symbols_sequence\n", "        return sorted(symbols_sequence, key=str)\n"), rule="C06-D4")
B("C06", "reset-replace-via-dataclasses", (WOP, """        new_operation = ResetOperation(self.qubit_indices[0])
        new_operation.params = new_params
        return new_operation""", """        import dataclasses

        return dataclasses.replace(self, params=new_params)"""), rule="C06-D5")
B("C06", "custom-factory-by-sorted-name", (GAT, "{symbol: arg for symbol, arg in zip(self.params_ordering, gate_params)}", "{symbol: arg for symbol, arg in zip(sorted(self.params_ordering, key=str), gate_params)}"), rule="C06-D5")
B("C06", "power-replace-params-drops-exponent", (GAT, "return self.wrapped_gate.replace_params(new_params).power(self.exponent)", "return self.wrapped_gate.replace_params(new_params)"), rule="C06-D2")
T("C06", "twin-bind-list-comprehension", (GAT, """    def bind(self, symbols_map) -> "MatrixFactoryGate":
        return self.replace_params(
            tuple(sub_symbols(param, symbols_map) for param in self.params)
        )""", """    def bind(self, symbols_map) -> "MatrixFactoryGate":
        return self.replace_params(
            tuple([sub_symbols(p, symbols_map) for p in self.params])
        )"""))

# ----------------------------------------------------------------------------- C07
B("C07", "controlled-dagger-single-control", (GAT, """        return ControlledGate(
            wrapped_gate=self.wrapped_gate.dagger,
            num_control_qubits=self.num_control_qubits,
        )""", """        return ControlledGate(
            wrapped_gate=self.wrapped_gate.dagger,
            num_control_qubits=1,
        )"""), rule="C07-D1")
B("C07", "power-dagger-drops-exponent", (GAT, "        return self.wrapped_gate.dagger.power(self.exponent)", "        return self.wrapped_gate.dagger"), rule="C07-D1")
B("C07", "controlled-controlled-replaces-count", (GAT, "            num_control_qubits=self.num_control_qubits + num_control_qubits,", "            num_control_qubits=num_control_qubits,"), rule="C07-D1")
B("C07", "exponential-controlled-commuted", (GAT, """    def controlled(self, num_control_qubits: int) -> Gate:
        return ControlledGate(self, num_control_qubits)

    def bind(self, symbols_map) -> "Gate":
        raise NotImplementedError(
            "Gates exponential""", """    def controlled(self, num_control_qubits: int) -> Gate:
        return self.wrapped_gate.controlled(num_control_qubits).exp

    def bind(self, symbols_map) -> "Gate":
        raise NotImplementedError(
            "Gates exponential"""), rule="C07-D1")
B("C07", "dagger-of-dagger-wraps-again", (GAT, """    @property
    def dagger(self) -> "Gate":
        return self.wrapped_gate

    @property
    def exp(self) -> "Gate":
        return Exponential(self)

    def power(self, exponent: float) -> "Gate":
        return Power(self, exponent)

    def __str__(self):
        wrapped_string""", """    @property
    def dagger(self) -> "Gate":
        return self.wrapped_gate.dagger

    @property
    def exp(self) -> "Gate":
        return Exponential(self)

    def power(self, exponent: float) -> "Gate":
        return Power(self, exponent)

    def __str__(self):
        wrapped_string"""), rule="C07-D1")
B("C07", "base-dagger-always-self", (GAT, "        return self if self.is_hermitian else Dagger(self)", "        return self"), rule="C07-D1")
B("C07", "dagger-is-transpose", (GAT, "        return self.wrapped_gate.matrix.adjoint()", "        return self.wrapped_gate.matrix.transpose()"), rule="C07-D3")
B("C07", "controlled-block-order", (GAT, """        return sympy.Matrix.diag(
            sympy.eye(2**self.num_qubits - 2**self.wrapped_gate.num_qubits),
            self.wrapped_gate.matrix,
        )""", """        return sympy.Matrix.diag(
            self.wrapped_gate.matrix,
            sympy.eye(2**self.num_qubits - 2**self.wrapped_gate.num_qubits),
        )"""), rule="C07-D3")
B("C07", "controlled-identity-size", (GAT, "sympy.eye(2**self.num_qubits - 2**self.wrapped_gate.num_qubits),", "sympy.eye(2**self.num_control_qubits),"), rule="C07-D3")
B("C07", "power-ignores-exponent", (GAT, "        return self.wrapped_gate.matrix**self.exponent", "        return self.wrapped_gate.matrix**2"), rule="C07-D3")
B("C07", "controlled-num-qubits-forgets-controls", (GAT, "        return self.wrapped_gate.num_qubits + self.num_control_qubits", "        return self.wrapped_gate.num_qubits + 1"), rule="C07-D2")
B("C07", "zero-controls-accepted", (GAT, "        if self.num_control_qubits < 1:", "        if self.num_control_qubits < 0:"), rule="C07-D4")
B("C07", "exp-matrix-cached-by-name", (GAT, """    @property
    def matrix(self) -> sympy.Matrix:
        return self.wrapped_gate.matrix.exp()""", """    @property
    def matrix(self) -> sympy.Matrix:
        key = (self.wrapped_gate.name, self.num_qubits, self.params)
        if key not in _EXP_CACHE:
            _EXP_CACHE[key] = self.wrapped_gate.matrix.exp()
        return _EXP_CACHE[key]"""), (GAT, 'POWER_GATE_SYMBOL = "^"\n', 'POWER_GATE_SYMBOL = "^"\n_EXP_CACHE = {}\n'), rule="C07-D")
B("C07", "custom-symmetric-flag", (GAT, """            gate_params,
            self._n_qubits,
        )""", """            gate_params,
            self._n_qubits,
            self.matrix.is_symmetric(),
        )"""), rule="C07-D3")
T("C07", "twin-controlled-power-reassociated", (GAT, """        return ControlledGate(
            wrapped_gate=self.wrapped_gate.power(exponent),
            num_control_qubits=self.num_control_qubits,
        )""", """        return self.wrapped_gate.power(exponent).controlled(self.num_control_qubits)"""))
T("C07", "twin-dagger-via-H", (GAT, "        return self.wrapped_gate.matrix.adjoint()", "        return self.wrapped_gate.matrix.H"))
T("C07", "twin-power-dagger-reordered", (GAT, "        return self.wrapped_gate.dagger.power(self.exponent)", "        return Dagger(Power(self.wrapped_gate, self.exponent))"))

# ----------------------------------------------------------------------------- C02
MAT = "circuits/_matrices.py"
BUI = "circuits/_builtin_gates.py"

B("C02", "cnot-declared-one-qubit", (BUI, 'CNOT = _gates.MatrixFactoryGate("CNOT", _matrices.cnot_matrix, (), 2, is_hermitian=True)', 'CNOT = _gates.MatrixFactoryGate("CNOT", _matrices.cnot_matrix, (), 1, is_hermitian=True)'), rule="C02-D2")
B("C02", "rename-gate-string", (BUI, 'SX = _gates.MatrixFactoryGate("SX", _matrices.sx_matrix, (), 1)', 'SX = _gates.MatrixFactoryGate("SqrtX", _matrices.sx_matrix, (), 1)'), rule="C02-D1")
B("C02", "flag-s-hermitian", (BUI, 'S = _gates.MatrixFactoryGate("S", _matrices.s_matrix, (), 1)', 'S = _gates.MatrixFactoryGate("S", _matrices.s_matrix, (), 1, is_hermitian=True)'), rule="C02-D3")
B("C02", "flag-rx-hermitian", (BUI, 'RX = make_parametric_gate_prototype("RX", _matrices.rx_matrix, 1)', 'RX = make_parametric_gate_prototype("RX", _matrices.rx_matrix, 1, is_hermitian=True)'), rule="C02-D3")
B("C02", "flag-iswap-hermitian", (BUI, 'ISWAP = _gates.MatrixFactoryGate("ISWAP", _matrices.iswap_matrix, (), 2)', 'ISWAP = _gates.MatrixFactoryGate("ISWAP", _matrices.iswap_matrix, (), 2, True)'), rule="C02-D3")
B("C02", "ragged-literal", (MAT, "    return sympy.Matrix([[1, 0, 0, 0], [0, 0, 1, 0], [0, 1, 0, 0], [0, 0, 0, 1]])", "    return sympy.Matrix([[1, 0, 0, 0], [0, 0, 1, 0], [0, 1, 0], [0, 0, 0, 1]])"), rule="C02-D2")
B("C02", "numpy-sqrt-back-in-h", (MAT, "            [float(1 / np.sqrt(2)), float(1 / np.sqrt(2))],", "            [1 / np.sqrt(2), float(1 / np.sqrt(2))],"), rule="C02-D4")
B("C02", "yy-corner-sign", (MAT, "            [1j * sympy.sin(angle / 2), 0, 0, sympy.cos(angle / 2)],\n        ]\n    )\n\n\ndef zz_matrix", "            [-1j * sympy.sin(angle / 2), 0, 0, sympy.cos(angle / 2)],\n        ]\n    )\n\n\ndef zz_matrix"), rule="C02-D5")
B("C02", "ms-phase-sign", (MAT, "            [0, -1j * sympy.exp(1j * (phi_0 - phi_1)), 1, 0],", "            [0, -1j * sympy.exp(-1j * (phi_0 - phi_1)), 1, 0],"), rule="C02-D5")
B("C02", "rz-both-phases-positive", (MAT, "                sympy.exp(-1 * sympy.I * angle / 2),", "                sympy.exp(-1 * sympy.I * (angle + np.pi) / 2),"), rule="C02-D6")
B("C02", "gpi2-unnormalised", (MAT, "def gpi2_matrix(theta):\n    \"\"\"Based on https://ionq.com/docs/getting-started-with-native-gates\"\"\"\n    return (2 ** (-0.5)) * sympy.Matrix(", "def gpi2_matrix(theta):\n    \"\"\"Based on https://ionq.com/docs/getting-started-with-native-gates\"\"\"\n    return (2 ** (-1)) * sympy.Matrix("), rule="C02-D5")
B("C02", "t-is-pi-over-eight", (MAT, "            [0, sympy.exp(1j * np.pi / 4)],", "            [0, sympy.exp(1j * np.pi / 8)],"), rule="C02-D7")
B("C02", "sx-conjugated", (MAT, "            [(1 + 1j) / 2, (1 - 1j) / 2],\n            [(1 - 1j) / 2, (1 + 1j) / 2],", "            [(1 + 1j) / 2, (1 + 1j) / 2],\n            [(1 - 1j) / 2, (1 - 1j) / 2],"), rule="C02-D")
B("C02", "xx-cos-for-sin", (MAT, "            [0, sympy.cos(angle / 2), -1j * sympy.sin(angle / 2), 0],\n            [0, -1j * sympy.sin(angle / 2), sympy.cos(angle / 2), 0],\n            [-1j * sympy.sin(angle / 2), 0, 0, sympy.cos(angle / 2)],\n        ]\n    )\n\n\ndef yy_matrix", "            [0, sympy.cos(angle / 2), -1j * sympy.cos(angle / 2), 0],\n            [0, -1j * sympy.sin(angle / 2), sympy.cos(angle / 2), 0],\n            [-1j * sympy.sin(angle / 2), 0, 0, sympy.cos(angle / 2)],\n        ]\n    )\n\n\ndef yy_matrix"), rule="C02-D5")
B("C02", "cz-sign-moved", (MAT, "            [0, 0, 1, 0],\n            [0, 0, 0, -1],\n        ]\n    )\n\n\ndef swap_matrix", "            [0, 0, -1, 0],\n            [0, 0, 0, 1],\n        ]\n    )\n\n\ndef swap_matrix"), rule="C02-D7")
B("C02", "cnot-controls-on-zero", (MAT, "            [1, 0, 0, 0],\n            [0, 1, 0, 0],\n            [0, 0, 0, 1],\n            [0, 0, 1, 0],", "            [0, 1, 0, 0],\n            [1, 0, 0, 0],\n            [0, 0, 1, 0],\n            [0, 0, 0, 1],"), rule="C02-D7")
B("C02", "phase-not-a-phase", (MAT, "def phase_matrix(angle):\n    return sympy.Matrix(\n        [\n            [1, 0],\n            [0, sympy.exp(1j * angle)],", "def phase_matrix(angle):\n    return sympy.Matrix(\n        [\n            [1, 0],\n            [0, sympy.exp(angle)],"), rule="C02-D")
B("C02", "ry-divided-by-cos", (MAT, "                -1 * sympy.sin(angle / 2),\n            ],", "                -1 * sympy.sin(angle / 2) / sympy.cos(angle),\n            ],"), rule="C02-D4")
B("C02", "delay-is-not-identity", (MAT, "    return i_matrix()", "    return z_matrix()"), rule="C02-D7")
B("C02", "prototype-swaps-slots", (BUI, "            name, matrix_factory, gate_parameters, num_qubits, is_hermitian", "            name, matrix_factory, gate_parameters, num_qubits, not is_hermitian"), rule="C02-D1")
B("C02", "xy-not-additive", (MAT, "            [0, sympy.cos(angle / 2), 1j * sympy.sin(angle / 2), 0],\n            [0, 1j * sympy.sin(angle / 2), sympy.cos(angle / 2), 0],\n            [0, 0, 0, 1],", "            [0, sympy.cos(angle / 2), 1j * sympy.sin(angle / 2), 0],\n            [0, 1j * sympy.sin(angle / 2), sympy.cos(angle / 2), 0],\n            [0, 0, 0, sympy.exp(1j * angle) * sympy.cos(angle)],"), rule="C02-D")
B("C02", "rh-phase-doubled", (MAT, "    phase_factor = sympy.cos(angle / 2) + 1j * sympy.sin(angle / 2)", "    phase_factor = sympy.cos(angle / 2) + 2j * sympy.sin(angle / 2)"), rule="C02-D5")
T("C02", "twin-reorder-table", (BUI, 'X = _gates.MatrixFactoryGate("X", _matrices.x_matrix, (), 1, is_hermitian=True)\nY = _gates.MatrixFactoryGate("Y", _matrices.y_matrix, (), 1, is_hermitian=True)', 'Y = _gates.MatrixFactoryGate("Y", _matrices.y_matrix, (), 1, is_hermitian=True)\nX = _gates.MatrixFactoryGate("X", _matrices.x_matrix, (), 1, is_hermitian=True)'))
T("C02", "twin-sympy-I", (MAT, "    return sympy.Matrix([[0, -1j], [1j, 0]])", "    return sympy.Matrix([[0, -sympy.I], [sympy.I, 0]])"))
T("C02", "twin-rz-trig-form", (MAT, "                sympy.exp(-1 * sympy.I * angle / 2),", "                sympy.cos(angle / 2) - 1j * sympy.sin(angle / 2),"))
T("C02", "twin-h-scalar-factor", (MAT, """    return sympy.Matrix(
        [
            [float(1 / np.sqrt(2)), float(1 / np.sqrt(2))],
            [float(1 / np.sqrt(2)), float(-1 / np.sqrt(2))],
        ]
    )""", """    return sympy.Matrix([[1, 1], [1, -1]]) / sympy.sqrt(2)"""))
T("C02", "twin-zz-exponential-form", (MAT, "            [sympy.cos(angle / 2) - 1j * sympy.sin(angle / 2), 0, 0, 0],", "            [sympy.exp(-1j * angle / 2), 0, 0, 0],"))
T("C02", "twin-local-variable", (MAT, """def phase_matrix(angle):
    return sympy.Matrix(""", """def phase_matrix(angle):
    unused_half = angle / 2
    return sympy.Matrix("""))
T("C02", "twin-u3-phase-multiplied", (MAT, "        / sympy.exp(-0.5j * (phi + lambda_))", "        * sympy.exp(0.5j * (phi + lambda_))"))

# ----------------------------------------------------------------------------- C03
B("C03", "coeff-map-sign", (OPS, '    "YZ": 1.0j,', '    "YZ": -1.0j,'), rule="C03-D1")
B("C03", "operator-map-swapped-values", (OPS, '    ord("X") + ord("Y"): "Z",\n    ord("Y") + ord("Z"): "X",', '    ord("X") + ord("Y"): "X",\n    ord("Y") + ord("Z"): "Z",'), rule="C03-D1")
B("C03", "coeff-map-missing-entry", (OPS, '    "ZX": 1.0j,\n', ''), rule="C03-D1")
B("C03", "phase-key-swapped", (OPS, "result_coeff *= COEFF_MAP[self[index] + op]", "result_coeff *= COEFF_MAP[op + self[index]]"), rule="C03-D2")
B("C03", "phase-overwrites", (OPS, "result_coeff *= COEFF_MAP[self[index] + op]", "result_coeff = COEFF_MAP[self[index] + op]"), rule="C03-D2")
B("C03", "equal-ops-keep-phase", (OPS, "            # Case 2: equal operators cancel\n            del result_ops[index]", "            # Case 2: equal operators cancel\n            del result_ops[index]\n            result_coeff *= COEFF_MAP.get(op + op, -1.0)"), rule="C03-D2")
B("C03", "mul-accumulates-on-other", (OPS, "            result_term = self.copy(new_coefficient=1)\n\n            for op, index in other:", "            result_term = other.copy(new_coefficient=1)\n\n            for op, index in self:"), rule="C03-D2")
B("C03", "mul-coefficient-twice", (OPS, "            result_term = self.copy(new_coefficient=1)", "            result_term = self.copy()"), rule="C03-D2")
B("C03", "mul-drops-other-coefficient", (OPS, "            new_coeff = self.coefficient * other.coefficient", "            new_coeff = self.coefficient"), rule="C03-D2")
B("C03", "sum-mul-product-swapped", (OPS, "for left_term, right_term in product(self.terms, other_terms)", "for left_term, right_term in product(other_terms, self.terms)"), rule="C03-D2")
B("C03", "sum-mul-right-times-left", (OPS, "                    left_term * right_term\n", "                    right_term * left_term\n"), rule="C03-D2")
B("C03", "term-rsub-sign", (OPS, "    def __rsub__(self, other: Union[PauliRepresentation, complex]) -> \"PauliSum\":\n        return other + -1.0 * self", "    def __rsub__(self, other: Union[PauliRepresentation, complex]) -> \"PauliSum\":\n        return self + -1.0 * other"), rule="C03-D3")
B("C03", "sum-rsub-sign", (OPS, "    def __rsub__(self, other: complex) -> \"PauliSum\":\n        return other + -1.0 * self", "    def __rsub__(self, other: complex) -> \"PauliSum\":\n        return -1.0 * other + self"), rule="C03-D3")
B("C03", "term-truediv-multiplies", (OPS, "        result = self * (1.0 / other)\n        assert isinstance(result, PauliTerm)", "        result = self * (1.0 * other)\n        assert isinstance(result, PauliTerm)"), rule="C03-D3")
B("C03", "term-radd-drops-self", (OPS, "    def __radd__(self, other: complex) -> \"PauliSum\":\n        return self + PauliTerm(\"I0\", other)", "    def __radd__(self, other: complex) -> \"PauliSum\":\n        return PauliSum([PauliTerm(\"I0\", other)])"), rule="C03-D3")
B("C03", "sum-add-drops-right-terms", (OPS, "for term in chain(self.terms, other.terms)]", "for term in chain(self.terms, self.terms)]"), rule="C03-D3")
B("C03", "sum-add-filters-constants", (OPS, "for term in chain(self.terms, other.terms)]", "for term in chain(self.terms, other.terms) if not term.is_constant]"), rule="C03-D3")
B("C03", "sum-rmul-squares", (OPS, "new_terms = [cast(PauliTerm, term.copy() * other) for term in self.terms]", "new_terms = [cast(PauliTerm, term.copy() * other * other) for term in self.terms]"), rule="C03-D3")
B("C03", "term-scalar-mul-adds", (OPS, "        return self.copy(self.coefficient * complex(other))", "        return self.copy(self.coefficient + complex(other))"), rule="C03-D3")
B("C03", "term-times-sum-swapped", (OPS, "            return (PauliSum([self]) * other).simplify()", "            return (other * PauliSum([self])).simplify()"), rule="C03-D3")
B("C03", "delete-sum-rmul", (OPS, "    def __rmul__(self, other: complex) -> \"PauliSum\":\n        assert isinstance(other, (int, float, complex))\n\n        new_terms = [cast(PauliTerm, term.copy() * other) for term in self.terms]\n\n        return PauliSum(new_terms).simplify()\n", ""), rule="C03-D4")
B("C03", "pow-accepts-negative", (OPS, "        if not isinstance(power, int) or power < 0:\n            raise ValueError(\"The power must be a non-negative integer.\")", "        if not isinstance(power, int):\n            raise ValueError(\"The power must be a non-negative integer.\")"), rule="C03-D4")
B("C03", "pow-rejects-zero", (OPS, "        if not isinstance(power, int) or power < 0:\n            raise ValueError(f\"Power must be", "        if not isinstance(power, int) or power <= 0:\n            raise ValueError(f\"Power must be"), rule="C03-D4")
B("C03", "exponentiation-odd-branch", (OPS, "        return pauli_rep * _efficient_exponentiation(pauli_rep, power - 1)", "        return pauli_rep * _efficient_exponentiation(pauli_rep, power - 2)"), rule="C03-D4")
B("C03", "exponentiation-halves-wrong", (OPS, "    intermediate_result = _efficient_exponentiation(pauli_rep, power // 2)\n    return intermediate_result * intermediate_result", "    intermediate_result = _efficient_exponentiation(pauli_rep, power // 2)\n    return intermediate_result * pauli_rep"), rule="C03-D4")
B("C03", "identity-has-coefficient-two", (OPS, "        return PauliTerm(\"I0\", 1.0)", "        return PauliTerm(\"I0\", 2.0)"), rule="C03-D4")
B("C03", "simplify-groups-by-qubits", (OPS, "            key = term.operations\n            if key in like_terms:", "            key = frozenset(term.qubits)\n            if key in like_terms:"), rule="C03-D5")
B("C03", "simplify-order-dependent-key", (OPS, "            key = term.operations\n            if key in like_terms:", "            key = tuple(term._ops.items())\n            if key in like_terms:"), rule="C03-D5")
B("C03", "simplify-sums-first-two", (OPS, "                coeff = sum(t.coefficient for t in term_list)", "                coeff = sum(t.coefficient for t in term_list[:2])"), rule="C03-D5")
B("C03", "simplify-loose-tolerance", (OPS, "                if not np.isclose(coeff, 0.0):  # type: ignore", "                if not np.isclose(coeff, 0.0, atol=1e-4):  # type: ignore"), rule="C03-D")
B("C03", "simplify-drops-duplicates", (OPS, "            if key in like_terms:\n                like_terms[key].append(term)\n            else:", "            if key in like_terms:\n                continue\n            else:"), rule="C03-D5")
B("C03", "sum-eq-order-sensitive", (OPS, "        return set(self.terms) == set(other.terms)", "        return list(self.terms) == list(other.terms)"), rule="C03-D6")
B("C03", "term-eq-ignores-operators", (OPS, "        return np.allclose(self.coefficient, cast_other.coefficient) and (\n            np.allclose(self.coefficient, 0) or self.operations == cast_other.operations\n        )", "        return np.allclose(self.coefficient, cast_other.coefficient)"), rule="C03-D6")
B("C03", "mul-mutates-other-memo", (OPS, "            new_coeff = self.coefficient * other.coefficient", "            other.coefficient = complex(other.coefficient)\n            new_coeff = self.coefficient * other.coefficient"), rule="C03-D7")
T("C03", "twin-reorder-coeff-map", (OPS, '    "XY": 1.0j,\n    "XZ": -1.0j,', '    "XZ": -1.0j,\n    "XY": 1.0j,'))
T("C03", "twin-sub-as-negation", (OPS, "    def __sub__(self, other: Union[PauliRepresentation, complex]) -> \"PauliSum\":\n        return self + -1.0 * other\n\n    def __rsub__(self, other: Union[PauliRepresentation, complex]) -> \"PauliSum\":", "    def __sub__(self, other: Union[PauliRepresentation, complex]) -> \"PauliSum\":\n        return self + other * -1\n\n    def __rsub__(self, other: Union[PauliRepresentation, complex]) -> \"PauliSum\":"))
T("C03", "twin-truediv-direct", (OPS, "    def __truediv__(self, other: complex) -> \"PauliSum\":\n        return self * (1.0 / other)", "    def __truediv__(self, other: complex) -> \"PauliSum\":\n        inverse = 1 / other\n        return self * inverse"))
T("C03", "twin-mul-start-from-self", (OPS, "            result_term = self.copy(new_coefficient=1)", "            result_term = self.copy()"), (OPS, "            new_coeff = self.coefficient * other.coefficient", "            new_coeff = other.coefficient"))
T("C03", "twin-frozenset-key", (OPS, "            key = term.operations\n            if key in like_terms:", "            key = frozenset(term._ops.items())\n            if key in like_terms:"))
T("C03", "twin-exponentiation-even-first", (OPS, """    if power % 2 == 1:
        return pauli_rep * _efficient_exponentiation(pauli_rep, power - 1)

    intermediate_result = _efficient_exponentiation(pauli_rep, power // 2)
    return intermediate_result * intermediate_result""", """    if power % 2 == 0:
        half = _efficient_exponentiation(pauli_rep, power // 2)
        return half * half

    return _efficient_exponentiation(pauli_rep, power - 1) * pauli_rep"""))

# ----------------------------------------------------------------------------- C04
UTL = "utils.py"
PAR = "measurements/parities.py"
SPT = "operators/_openfermion_utils/sparse_tools.py"
OUT = "operators/_utils.py"

B("C04", "b2t-unreversed-only", (UTL, "    measurement = tuple(int(bit) for bit in bitstring[::-1])", "    measurement = tuple(int(bit) for bit in bitstring)"), rule="C04-D1")
B("C04", "outcome-keys-unreversed-only", (WF, '            format(i, "0" + str(self.n_qubits) + "b")[::-1] for i in range(len(self))', '            format(i, "0" + str(self.n_qubits) + "b") for i in range(len(self))'), rule="C04-D1")
B("C04", "few-sample-branch-skips-conversion", (WF, "        string_samples = rng.choice(a=outcome_strings, size=n_samples, p=probabilities)\n        samples = convert_bitstrings_to_tuples(string_samples)", "        indices = rng.choice(len(outcome_strings), size=n_samples, p=probabilities)\n        samples = [tuple(map(int, outcome_strings[index])) for index in indices]"), rule="C04-D1")
B("C04", "many-sample-branch-extra-reversal", (WF, "        outcome_tuples += convert_bitstrings_to_tuples(outcome_strings)", "        outcome_tuples += [t[::-1] for t in convert_bitstrings_to_tuples(outcome_strings)]"), rule="C04-D1")
B("C04", "candidates-reordered", (WF, "        string_samples = rng.choice(a=outcome_strings, size=n_samples, p=probabilities)", "        string_samples = rng.choice(a=outcome_strings[::-1], size=n_samples, p=probabilities)"), rule="C04-D1")
B("C04", "uniform-sampling", (WF, "        string_samples = rng.choice(a=outcome_strings, size=n_samples, p=probabilities)", "        string_samples = rng.choice(a=outcome_strings, size=n_samples)"), rule="C04-D1")
B("C04", "outcome-keys-descending-index", (WF, '"b")[::-1] for i in range(len(self))', '"b")[::-1] for i in reversed(range(len(self)))'), rule="C04-D1")
B("C04", "t2b-reversed", (UTL, '    return "".join(map(str, tup))', '    return "".join(map(str, tup[::-1]))'), rule="C04-D2")
B("C04", "add-counts-reversed", (MEAS, "            for bitvalue in bitstring:\n                measurement.append(int(bitvalue))", "            for bitvalue in reversed(bitstring):\n                measurement.append(int(bitvalue))"), rule="C04-D2")
B("C04", "bit-matrix-column-major", (MEAS, "    return bitstring_1d_array.astype(int).reshape(-1, n_qubits)", "    return bitstring_1d_array.astype(int).reshape(n_qubits, -1).T"), rule="C04-D2")
B("C04", "parity-columns-mirrored", (PAR, "    bitstring_subset = bitstrings_vector[:, np.fromiter(marked_qubits, dtype=int)]", "    bitstring_subset = bitstrings_vector[:, -1 - np.fromiter(marked_qubits, dtype=int)]"), rule="C04-D2")
B("C04", "frequencies-sorted-separately", (MEAS, "        np.fromiter(bitstring_frequencies.values(), dtype=int) * parity", "        np.fromiter(sorted(bitstring_frequencies.values()), dtype=int) * parity"), rule="C04-D2")
B("C04", "exact-distribution-digits-descending", (DIST, "    keys = product([0, 1], repeat=int(np.log2(len(prob_distribution))))", "    keys = product([1, 0], repeat=int(np.log2(len(prob_distribution))))"), rule="C04-D3")
B("C04", "exact-distribution-key-reversed", (DIST, "        key: float(value) for key, value in zip(keys, prob_distribution)", "        key[::-1]: float(value) for key, value in zip(keys, prob_distribution)"), rule="C04-D3")
B("C04", "string-keys-reversed", (DIST, 'tuple(map(int, key if "," not in key else key.rstrip(",").split(",")))', 'tuple(map(int, key[::-1] if "," not in key else key.rstrip(",").split(",")))'), rule="C04-D3")
B("C04", "sparse-descending-qubits", (SPT, "        for qubit_num, operator_str in sorted(qubit_term.operations):", "        for qubit_num, operator_str in sorted(qubit_term.operations, reverse=True):"), rule="C04-D4")
B("C04", "sparse-kron-swapped", (SPT, '    return scipy.sparse.kron(operator_1, operator_2, "csc")', '    return scipy.sparse.kron(operator_2, operator_1, "csc")'), rule="C04-D4")
B("C04", "expectation-reverses-by-default", (OUT, "    reverse_operator: bool = False,\n) -> complex:", "    reverse_operator: bool = True,\n) -> complex:"), rule="C04-D4")
B("C04", "sympy-dense-vector-lsb-index", (UNI, """    basis = [sympy.Matrix([1, 0]), sympy.Matrix([0, 1])]
    return sympy.kronecker_product(*[basis[bit] for bit in state])""", """    vector = sympy.zeros(2 ** len(state), 1)
    vector[sum(bit << position for position, bit in enumerate(state))] = 1
    return vector"""), rule="C04-D5")
B("C04", "numpy-dense-vector-reversed", (UNI, "    return reduce(np.kron, (basis[bit] for bit in state))", "    return reduce(np.kron, (basis[bit] for bit in reversed(state)))"), rule="C04-D5")
B("C04", "basis-bitstring-lsb-first", (UNI, "    return [int(char) for char in bin(i)[2:].zfill(num_qubits)]", "    return [int(char) for char in bin(i)[2:].zfill(num_qubits)[::-1]]"), rule="C04-D5")
B("C04", "simulator-flips-state-for-expectation", (SIM, "        return get_expectation_value(operator, wavefunction).real", "        return get_expectation_value(operator, wavefunction, True).real"), rule="C04-D6")
B("C04", "probabilities-reversed", (WF, "        return np.abs(self.amplitudes) ** 2", "        return np.abs(self.amplitudes[::-1]) ** 2"), rule="C04-D")
T("C04", "twin-remove-both-reversals", (UTL, "    measurement = tuple(int(bit) for bit in bitstring[::-1])", "    measurement = tuple(int(bit) for bit in bitstring)"), (WF, '            format(i, "0" + str(self.n_qubits) + "b")[::-1] for i in range(len(self))', '            format(i, "0" + str(self.n_qubits) + "b") for i in range(len(self))'))
T("C04", "twin-sympy-dense-vector-msb-index", (UNI, """    basis = [sympy.Matrix([1, 0]), sympy.Matrix([0, 1])]
    return sympy.kronecker_product(*[basis[bit] for bit in state])""", """    vector = sympy.zeros(2 ** len(state), 1)
    vector[sum(bit << (len(state) - 1 - position) for position, bit in enumerate(state))] = 1
    return vector"""))
T("C04", "twin-map-conversion", (UTL, "    measurements = [bitstring_to_tuple(bitstring) for bitstring in bitstrings]", "    measurements = list(map(bitstring_to_tuple, bitstrings))"))
T("C04", "twin-index-draw-with-conversion", (WF, "        string_samples = rng.choice(a=outcome_strings, size=n_samples, p=probabilities)\n        samples = convert_bitstrings_to_tuples(string_samples)", "        indices = rng.choice(len(outcome_strings), size=n_samples, p=probabilities)\n        samples = [bitstring_to_tuple(outcome_strings[index]) for index in indices]"))

# ----------------------------------------------------------------------------- C09
OPUT = "operators/_openfermion_utils/operator_utils.py"

B("C09", "reverse-off-by-one", (OUT, "            new_qubit_num = n_qubits - 1 - qubit_num", "            new_qubit_num = n_qubits - qubit_num"), rule="C09-D1")
B("C09", "reverse-drops-width-guard", (OUT, "    if n_qubits < qubit_operator.n_qubits:\n        raise ValueError(\"Invalid number of qubits specified.\")\n\n    for term in qubit_operator.terms:", "    for term in qubit_operator.terms:"), rule="C09-D1")
B("C09", "reverse-unit-coefficient", (OUT, "        reversed_op += PauliTerm(new_term, term.coefficient)", "        reversed_op += PauliTerm(new_term)"), rule="C09-D1")
B("C09", "reverse-uses-operator-width", (OUT, "            new_qubit_num = n_qubits - 1 - qubit_num", "            new_qubit_num = qubit_operator.n_qubits - 1 - qubit_num"), rule="C09-D1")
B("C09", "conjugate-dropped-on-sum-branch", (OPUT, "            conjugate_operator += term.copy(term.coefficient.conjugate())", "            conjugate_operator += term.copy(term.coefficient)"), rule="C09-D2")
B("C09", "conjugate-dropped-on-term-branch", (OPUT, "        conjugate_operator = operator.copy(operator.coefficient.conjugate())", "        conjugate_operator = operator.copy()"), rule="C09-D2")
B("C09", "ndarray-bare-transpose", (OPUT, "        conjugate_operator = operator.T.conj()", "        conjugate_operator = operator.T"), rule="C09-D2")
B("C09", "sparse-bare-conjugate", (OPUT, "        conjugate_operator = operator.getH()", "        conjugate_operator = operator.conj()"), rule="C09-D2")
B("C09", "is-hermitian-compares-with-itself", (OPUT, "        return operator == hermitian_conjugated(operator)", "        return operator == operator"), rule="C09-D2")
B("C09", "sparse-constant-disjunct-dropped", (SPT, "        if tensor_factor < n_qubits or not qubit_term:", "        if tensor_factor < n_qubits:"), rule="C09-D3")
B("C09", "sparse-gap-size-off-by-one", (SPT, "                identity_qubits = qubit_num - tensor_factor\n", "                identity_qubits = qubit_num - tensor_factor + 1\n"), rule="C09-D3")
B("C09", "sparse-cursor-not-advanced", (SPT, "            tensor_factor = qubit_num + 1", "            tensor_factor = qubit_num"), rule="C09-D3")
B("C09", "sparse-trailing-size", (SPT, "            identity_qubits = n_qubits - tensor_factor\n", "            identity_qubits = n_qubits - tensor_factor - 1\n"), rule="C09-D3")
B("C09", "sparse-width-guard-removed", (SPT, "    if n_qubits < operator.n_qubits:\n        raise ValueError(\"Invalid number of qubits specified.\")\n", ""), rule="C09-D3")
B("C09", "sparse-coefficient-twice", (SPT, "        values_list.append(sparse_matrix.tocoo(copy=False).data)", "        values_list.append(coefficient * sparse_matrix.tocoo(copy=False).data)"), rule="C09-D3")
B("C09", "sparse-inplace-scaling-of-shared-factor", (SPT, "        sparse_operators = [coefficient]", "        sparse_operators = []"), (SPT, "        values_list.append(sparse_matrix.tocoo(copy=False).data)", "        values = sparse_matrix.tocoo(copy=False).data\n        values *= coefficient\n        values_list.append(values)"), rule="C09-D3")
B("C09", "sparse-y-matrix-transposed", (SPT, "pauli_y_csc = scipy.sparse.csc_matrix([[0.0, -1.0j], [1.0j, 0.0]], dtype=complex)", "pauli_y_csc = scipy.sparse.csc_matrix([[0.0, 1.0j], [-1.0j, 0.0]], dtype=complex)"), rule="C09-D3")
B("C09", "sparse-empty-sum-wrong-dimension", (SPT, "        return scipy.sparse.csc_matrix((n_hilbert, n_hilbert), dtype=complex)", "        return scipy.sparse.csc_matrix((n_qubits, n_qubits), dtype=complex)"), rule="C09-D3")
B("C09", "expectation-ignores-state-width", (OUT, "    sparse_op = get_sparse_operator(qubit_op, n_qubits=n_qubits)", "    sparse_op = get_sparse_operator(qubit_op)"), rule="C09-D4")
B("C09", "expectation-unconjugated-bra", (SPT, "            expectation = numpy.dot(numpy.conjugate(state), operator * state)", "            expectation = numpy.dot(state, operator * state)"), rule="C09-D4")
B("C09", "expansion-y-phase-sign", (OUT, "                    if j_str[index] == 0:\n                        val_nz = val_nz * (1j)", "                    if j_str[index] == 0:\n                        val_nz = val_nz * (-1j)"), rule="C09-D5")
B("C09", "expansion-z-on-zero-bit", (OUT, "                if label_vec[index] == 3:\n                    if j_str[index] == 1:", "                if label_vec[index] == 3:\n                    if j_str[index] == 0:"), rule="C09-D5")
B("C09", "expansion-flip-only-x", (OUT, "                if label_vec[index] in [1, 2]:  # flip if X or Y", "                if label_vec[index] in [1]:  # flip if X or Y"), rule="C09-D5")
B("C09", "expansion-transposed-entry", (OUT, "            tr = tr + operator[j][f(j)] * nz(j)", "            tr = tr + operator[f(j)][j] * nz(j)"), rule="C09-D5")
B("C09", "expansion-normalisation", (OUT, "        return tr / 2**n", "        return tr / 2 ** (n - 1)"), rule="C09-D5")
B("C09", "expansion-labels-swapped", (OUT, '            elif elem == 2:\n                pauli_symbol = "*Y" + str(ind)\n            elif elem == 3:\n                pauli_symbol = "*Z" + str(ind)', '            elif elem == 2:\n                pauli_symbol = "*Z" + str(ind)\n            elif elem == 3:\n                pauli_symbol = "*Y" + str(ind)'), rule="C09-D5")
B("C09", "bin2dec-lsb-first", (UTL, "        dec = dec + coeff * x[len(x) - 1 - i]", "        dec = dec + coeff * x[i]"), rule="C09-D5")
T("C09", "twin-ndarray-conj-T", (OPUT, "        conjugate_operator = operator.T.conj()", "        conjugate_operator = operator.conj().T"))
T("C09", "twin-reverse-index-reassociated", (OUT, "            new_qubit_num = n_qubits - 1 - qubit_num", "            new_qubit_num = (n_qubits - qubit_num) - 1"))
T("C09", "twin-scale-values-on-a-copy", (SPT, "        sparse_operators = [coefficient]", "        sparse_operators = []"), (SPT, "        values_list.append(sparse_matrix.tocoo(copy=False).data)", "        values_list.append(coefficient * sparse_matrix.tocoo(copy=False).data)"))
T("C09", "twin-trailing-test-mirrored", (SPT, "        if tensor_factor < n_qubits or not qubit_term:", "        if not qubit_term or n_qubits > tensor_factor:"))

# ----------------------------------------------------------------------------- C10
B("C10", "union-for-symmetric-difference", (MEAS, "                marked_qubits = first_term.qubits.symmetric_difference(\n                    second_term.qubits\n                )", "                marked_qubits = first_term.qubits.union(\n                    second_term.qubits\n                )"), rule="C10-D1")
B("C10", "pair-drops-second-coefficient", (MEAS, "                    first_term.coefficient\n                    * second_term.coefficient\n                    * get_expectation_value_from_frequencies(", "                    first_term.coefficient\n                    * get_expectation_value_from_frequencies("), rule="C10-D1")
B("C10", "diagonal-is-coefficient", (MEAS, "            correlations[i, i] = first_term.coefficient**2", "            correlations[i, i] = first_term.coefficient"), rule="C10-D1")
B("C10", "no-symmetric-fill", (MEAS, "                correlations[j, i] = correlations[i, j]\n", ""), rule="C10-D1")
B("C10", "constant-shortcut-index-slip", (MEAS, """                marked_qubits = first_term.qubits.symmetric_difference(
                    second_term.qubits
                )
                correlations[i, j] = (
                    first_term.coefficient
                    * second_term.coefficient
                    * get_expectation_value_from_frequencies(
                        marked_qubits, bitstring_frequencies
                    )
                )""", """                if second_term.is_constant:
                    correlations[i, j] = second_term.coefficient * expectation_values[i]
                elif first_term.is_constant:
                    correlations[i, j] = first_term.coefficient * expectation_values[i]
                else:
                    marked_qubits = first_term.qubits.symmetric_difference(
                        second_term.qubits
                    )
                    correlations[i, j] = (
                        first_term.coefficient
                        * second_term.coefficient
                        * get_expectation_value_from_frequencies(
                            marked_qubits, bitstring_frequencies
                        )
                    )"""), rule="C10-D1")
B("C10", "bessel-branches-swapped", (MEAS, "            num_measurements - 1 if use_bessel_correction else num_measurements", "            num_measurements if use_bessel_correction else num_measurements - 1"), rule="C10-D2")
B("C10", "divide-by-distinct-outcomes", (MEAS, "        bitstring_frequencies = self.get_counts()\n        num_measurements = len(self.bitstrings)\n\n        # Perform weighted average", "        bitstring_frequencies = self.get_counts()\n        num_measurements = len(bitstring_frequencies)\n\n        # Perform weighted average"), rule="C10-D2")
B("C10", "covariance-adds-outer", (MEAS, "            correlations\n            - expectation_values[:, np.newaxis] * expectation_values[np.newaxis, :]", "            correlations\n            + expectation_values[:, np.newaxis] * expectation_values[np.newaxis, :]"), rule="C10-D2")
B("C10", "ising-guard-after-work", (MEAS, """        if not ising_operator.is_ising:
            raise TypeError("Input operator is not ising.")

        # Count number of occurrences of bitstrings
        bitstring_frequencies = self.get_counts()
        num_measurements = len(self.bitstrings)
""", """        # Count number of occurrences of bitstrings
        bitstring_frequencies = self.get_counts()
        num_measurements = len(self.bitstrings)
"""), rule="C10-D3")
B("C10", "value-without-coefficient", (MEAS, "            term.coefficient\n            * get_expectation_value_from_frequencies(term.qubits, bitstring_frequencies)", "            get_expectation_value_from_frequencies(term.qubits, bitstring_frequencies)"), rule="C10-D4")
B("C10", "values-skip-constant-terms", (MEAS, "            for term in ising_operator.terms\n        ]\n        expectation_values = np.array(expectation_values_list)", "            for term in ising_operator.terms\n            if not term.is_constant\n        ]\n        expectation_values = np.array(expectation_values_list)"), rule="C10-D4")
B("C10", "eigenvalue-sign-flipped", (MEAS, "        * 2\n        - 1\n    )\n    num_measurements = sum(bitstring_frequencies.values())", "        * -2\n        + 1\n    )\n    num_measurements = sum(bitstring_frequencies.values())"), rule="C10-D4")
B("C10", "parity-indicator-odd", (PAR, "    return (bitstring_subset.sum(axis=1) + 1) % 2", "    return bitstring_subset.sum(axis=1) % 2"), rule="C10-D4")
B("C10", "empty-support-odd", (PAR, "    if not marked_qubits:\n        return np.ones(bitstrings_vector.shape[0])", "    if not marked_qubits:\n        return np.zeros(bitstrings_vector.shape[0])"), rule="C10-D4")
B("C10", "mean-divides-by-distinct", (MEAS, "    num_measurements = sum(bitstring_frequencies.values())", "    num_measurements = len(bitstring_frequencies)"), rule="C10-D4")
B("C10", "counts-of-distinct-only", (MEAS, "        bitstrings = convert_tuples_to_bitstrings(self.bitstrings)\n        return dict(Counter(bitstrings))", "        bitstrings = convert_tuples_to_bitstrings(set(self.bitstrings))\n        return dict(Counter(bitstrings))"), rule="C10-D5")
B("C10", "add-counts-once-each", (MEAS, "            self.bitstrings += [tuple(measurement)] * counts[bitstring]", "            self.bitstrings += [tuple(measurement)] * 1"), rule="C10-D5")
B("C10", "distribution-divides-by-distinct", (MEAS, "        counts = self.get_counts()\n        num_measurements = len(self.bitstrings)\n\n        distribution = {}", "        counts = self.get_counts()\n        num_measurements = len(counts)\n\n        distribution = {}"), rule="C10-D5")
B("C10", "tallies-misaligned-unique", (PAR, "    bitstrings_vector = np.array([*bitstring_frequencies.keys()])", "    bitstrings_vector = np.unique(np.array(measurements), axis=0)"), rule="C10-D6")
B("C10", "tallies-even-odd-swapped", (PAR, "        values.append([true_parity_count, false_parity_count])", "        values.append([false_parity_count, true_parity_count])"), rule="C10-D6")
B("C10", "pair-tallies-slots-swapped", (PAR, "            correlations[0][term1_index, term2_index][0] += (\n                (1 - equal_parities) * bitstring_counts", "            correlations[0][term1_index, term2_index][0] += (\n                (equal_parities) * bitstring_counts"), rule="C10-D6")
B("C10", "expectation-sorts-bitstrings", (MEAS, "        bitstring_frequencies = self.get_counts()\n        num_measurements = len(self.bitstrings)\n\n        # Perform weighted average", "        self.bitstrings.sort()\n        bitstring_frequencies = self.get_counts()\n        num_measurements = len(self.bitstrings)\n\n        # Perform weighted average"), rule="C10-D7")
T("C10", "twin-xor-operator", (MEAS, "                marked_qubits = first_term.qubits.symmetric_difference(\n                    second_term.qubits\n                )", "                marked_qubits = first_term.qubits ^ second_term.qubits"))
T("C10", "twin-constant-shortcut-correct", (MEAS, """                marked_qubits = first_term.qubits.symmetric_difference(
                    second_term.qubits
                )
                correlations[i, j] = (
                    first_term.coefficient
                    * second_term.coefficient
                    * get_expectation_value_from_frequencies(
                        marked_qubits, bitstring_frequencies
                    )
                )""", """                if second_term.is_constant:
                    correlations[i, j] = second_term.coefficient * expectation_values[i]
                elif first_term.is_constant:
                    correlations[i, j] = first_term.coefficient * expectation_values[j]
                else:
                    marked_qubits = first_term.qubits.symmetric_difference(
                        second_term.qubits
                    )
                    correlations[i, j] = (
                        first_term.coefficient
                        * second_term.coefficient
                        * get_expectation_value_from_frequencies(
                            marked_qubits, bitstring_frequencies
                        )
                    )"""))
T("C10", "twin-denominator-negated-flag", (MEAS, "            num_measurements - 1 if use_bessel_correction else num_measurements", "            num_measurements if not use_bessel_correction else num_measurements - 1"))
T("C10", "twin-outer-product", (MEAS, "            - expectation_values[:, np.newaxis] * expectation_values[np.newaxis, :]", "            - np.outer(expectation_values, expectation_values)"))

# ----------------------------------------------------------------------------- C13
ITT = "circuits/_itertools.py"

B("C13", "min-for-max", (ITT, "        (circuits_chunk, max(samples_chunk))", "        (circuits_chunk, min(samples_chunk))"), rule="C13-D2")
B("C13", "different-chunk-sizes", (ITT, "            _iterate_in_batches(n_samples_per_circuit, max_batch_size),", "            _iterate_in_batches(n_samples_per_circuit, max_batch_size + 1),"), rule="C13-D2")
B("C13", "length-guard-deleted", (ITT, """    if len(circuits) != len(n_samples_per_circuit):
        raise ValueError(
            "Mismatched lengths of `circuits` and `n_samples_per_circuit: "
            f"({len(circuits)} and {len(n_samples_per_circuit)} respectively)."
            "Both sequences need to have the same length"
        )
""", ""), rule="C13-D1")
B("C13", "batch-size-zero-accepted", (ITT, "    if max_batch_size <= 0:", "    if max_batch_size < 0:"), rule="C13-D1")
B("C13", "combine-guard-deleted", (ITT, """    if len(all_measurements) != (sum_multiplicities := sum(multiplicities)):
        raise ValueError(
            "Mismatch between multiplicities and number of measurements to combine. "
            f"Got {len(all_measurements)} Measurements objects to combine "
            f"but multiplicities sum to {sum_multiplicities}"
        )
""", ""), rule="C13-D1")
B("C13", "chunking-restarts-iterator", (ITT, "    it = iter(items)\n    while chunk := tuple(islice(it, batch_size)):\n        yield chunk", "    it = iter(items)\n    while chunk := tuple(islice(iter(items), batch_size)):\n        yield chunk\n        break"), rule="C13-D2")
B("C13", "expansion-remainder-dropped", (ITT, "        else (multiplicities - 1) * (max_sample_size,) + (n_samples % max_sample_size,)", "        else (multiplicities - 1) * (max_sample_size,)"), rule="C13-D3")
B("C13", "expansion-floor-multiplicity", (ITT, "    multiplicities = -(-n_samples // max_sample_size)", "    multiplicities = n_samples // max_sample_size"), rule="C13-D3")
B("C13", "expansion-full-chunks-only", (ITT, "        if n_samples % max_sample_size == 0\n        else (multiplicities - 1) * (max_sample_size,) + (n_samples % max_sample_size,)", "        if n_samples % max_sample_size == 0\n        else multiplicities * (max_sample_size,)"), rule="C13-D3")
B("C13", "expand-returns-swapped-slots", (ITT, "    return new_circuits, new_n_samples, multiplicities", "    return new_circuits, multiplicities, new_n_samples"), rule="C13-D3")
B("C13", "expand-repeats-by-sample-count", (ITT, "        for circuit, multi in zip(circuits, multiplicities)", "        for circuit, multi in zip(circuits, n_samples_per_circuit)"), rule="C13-D3")
B("C13", "combine-fresh-iterator-per-group", (ITT, "        reduce(_combine_measurements, islice(measurements_it, multiplicity))", "        reduce(_combine_measurements, islice(iter(all_measurements), multiplicity))"), rule="C13-D4")
B("C13", "combine-reversed-multiplicities", (ITT, "        sum(islice(bitstrings_it, multiplicity), start=[])\n        for multiplicity in multiplicities", "        sum(islice(bitstrings_it, multiplicity), start=[])\n        for multiplicity in reversed(multiplicities)"), rule="C13-D4")
B("C13", "combine-accumulates-in-first", (ITT, "    result = Counter(first)\n    for bitstring, count in second.items():\n        result[bitstring] += count\n    return dict(result)", "    for bitstring, count in second.items():\n        first[bitstring] = first.get(bitstring, 0) + count\n    return first"), rule="C13-D")
B("C13", "combine-overwrites-counts", (ITT, "        result[bitstring] += count", "        result[bitstring] = count"), rule="C13-D4")
B("C13", "scale-assert-deleted", (UTL, '    assert sum(result) == total, "The scaled list does not sum to the desired total."\n', ""), rule="C13-D5")
B("C13", "scale-smallest-remainder-first", (UTL, "    indexes_sorted_by_remainder = np.argsort(remainders)[::-1]", "    indexes_sorted_by_remainder = np.argsort(remainders)"), rule="C13-D5")
B("C13", "scale-all-to-one-index", (UTL, "        result[indexes_sorted_by_remainder[index]] += 1", "        result[indexes_sorted_by_remainder[0]] += 1"), rule="C13-D5")
B("C13", "scale-ceil", (UTL, "    result = [np.floor(value * scale_factor) for value in values]", "    result = [np.ceil(value * scale_factor) for value in values]"), rule="C13-D5")
B("C13", "representing-drops-multiplicity", (MEAS, """                for sample in samples:
                    bitstring_samples += [
                        tuple([int(measurement_value) for measurement_value in sample])
                    ] * samples[sample]""", """                bitstring_samples += [
                    tuple([int(measurement_value) for measurement_value in sample])
                    for sample in samples
                ]"""), rule="C13-D6")
B("C13", "representing-truncates", (MEAS, "            bitstring_samples += [bitstring] * int(\n                round(distribution[state] * number_of_samples)\n            )", "            bitstring_samples += [bitstring] * int(\n                distribution[state] * number_of_samples\n            )"), rule="C13-D6")
B("C13", "representing-one-correction", (MEAS, "                abs(number_of_samples - len(bitstring_samples)),", "                1,"), rule="C13-D6")
B("C13", "representing-no-elimination-check", (MEAS, """                samples = _check_sample_elimination(
                    samples, bitstring_samples, leftover_distribution
                )
""", ""), rule="C13-D6")
B("C13", "representing-edits-callers-dict", (MEAS, "        distribution = copy.deepcopy(measurement_outcome_distribution.distribution_dict)", "        distribution = measurement_outcome_distribution.distribution_dict\n        distribution.pop(None, None)"), rule="C13-D")
T("C13", "twin-assert-as-raise", (UTL, '    assert sum(result) == total, "The scaled list does not sum to the desired total."\n', '    if sum(result) != total:\n        raise AssertionError("The scaled list does not sum to the desired total.")\n'))
T("C13", "twin-guard-lt-one", (ITT, "    if max_batch_size <= 0:", "    if max_batch_size < 1:"))
T("C13", "twin-expansion-divmod-free", (ITT, """    multiplicities = -(-n_samples // max_sample_size)
    new_n_samples = (
        multiplicities * (max_sample_size,)
        if n_samples % max_sample_size == 0
        else (multiplicities - 1) * (max_sample_size,) + (n_samples % max_sample_size,)
    )""", """    full = n_samples // max_sample_size
    rest = n_samples % max_sample_size
    new_n_samples = full * (max_sample_size,) + ((rest,) if rest != 0 else ())
    multiplicities = full + (1 if rest != 0 else 0)"""))

# ----------------------------------------------------------------------------- C15
EST = "estimation/_estimation.py"

B("C15", "swap-index-lists-in-zip", (EST, "        measured_expectation_values_list, indices_to_measure\n    ):", "        measured_expectation_values_list, indices_not_to_measure\n    ):"), rule="C15-D1")
B("C15", "split-appends-index-to-other-partition", (EST, "            indices_not_to_measure.append(i)\n            estimation_tasks_not_to_measure.append(task)", "            indices_to_measure.append(i)\n            estimation_tasks_not_to_measure.append(task)"), rule="C15-D1")
B("C15", "split-returns-swapped-index-slots", (EST, "        indices_to_measure,\n        indices_not_to_measure,\n    )\n\n\ndef evaluate_non_measured", "        indices_not_to_measure,\n        indices_to_measure,\n    )\n\n\ndef evaluate_non_measured"), rule="C15-D1")
B("C15", "split-ignores-zero-shots", (EST, "        if task.operator.is_constant or task.number_of_shots == 0:", "        if task.operator.is_constant:"), rule="C15-D1")
B("C15", "tasks-sorted-before-running", (EST, "        circuits, operators, shots_per_circuit = zip(", "        estimation_tasks_to_measure = sorted(estimation_tasks_to_measure, key=lambda e: e.number_of_shots)\n        circuits, operators, shots_per_circuit = zip("), rule="C15-D1")
B("C15", "tasks-reversed-in-unzip", (EST, "                for e in estimation_tasks_to_measure\n            ]", "                for e in reversed(estimation_tasks_to_measure)\n            ]"), rule="C15-D1")
B("C15", "runner-gets-operators", (EST, "        measurements_list = runner.run_batch_and_measure(circuits, shots_per_circuit)", "        measurements_list = runner.run_batch_and_measure(operators, shots_per_circuit)"), rule="C15-D1")
B("C15", "measurements-evaluated-against-reversed-operators", (EST, "            for frame_operator, measurements in zip(operators, measurements_list)", "            for frame_operator, measurements in zip(operators[::-1], measurements_list)"), rule="C15-D1")
B("C15", "not-measured-values-from-measured-list", (EST, "    non_measured_expectation_values_list = evaluate_non_measured_estimation_tasks(\n        estimation_tasks_not_to_measure\n    )", "    non_measured_expectation_values_list = evaluate_non_measured_estimation_tasks(\n        estimation_tasks_to_measure\n    )"), rule="C15-D1")
B("C15", "allocate-measured-only", (EST, "            len(estimation_tasks_not_to_measure) + len(estimation_tasks_to_measure)", "            len(estimation_tasks_to_measure)"), rule="C15-D2")
B("C15", "return-reversed", (EST, "    return cast(List[ExpectationValues], full_expectation_values)", "    return cast(List[ExpectationValues], full_expectation_values[::-1])"), rule="C15-D2")
B("C15", "constant-first-term-only", (EST, "            coefficient = sum(term.coefficient for term in task.operator.terms)", "            coefficient = task.operator.terms[0].coefficient"), rule="C15-D3")
B("C15", "zero-shot-returns-one", (EST, "                coefficient = 0.0", "                coefficient = 1.0"), rule="C15-D3")
B("C15", "misclassified-not-refused", (EST, """                raise RuntimeError(
                    "An EstimationTask required shots but was classified as "
                    "a non-measured task"
                )""", "                coefficient = 0.0"), rule="C15-D3")
B("C15", "binding-takes-shots-from-first-task", (EST, "            number_of_shots=estimation_task.number_of_shots,", "            number_of_shots=estimation_tasks[0].number_of_shots,"), rule="C15-D4")
B("C15", "binding-with-first-map", (EST, "            circuit=estimation_task.circuit.bind(symbols_map),", "            circuit=estimation_task.circuit.bind(symbols_maps[0]),"), rule="C15-D4")
B("C15", "binding-cache-by-circuit-id", (EST, """    return [
        EstimationTask(
            operator=estimation_task.operator,
            circuit=estimation_task.circuit.bind(symbols_map),""", """    bound_circuits = {}
    for estimation_task, symbols_map in zip(estimation_tasks, symbols_maps):
        if id(estimation_task.circuit) not in bound_circuits:
            bound_circuits[id(estimation_task.circuit)] = estimation_task.circuit.bind(symbols_map)
    return [
        EstimationTask(
            operator=estimation_task.operator,
            circuit=bound_circuits[id(estimation_task.circuit)],"""), rule="C15-D4")
B("C15", "exact-args-swapped", (EST, "            estimation_task.circuit, estimation_task.operator\n        )", "            estimation_task.operator, estimation_task.circuit\n        )"), rule="C15-D5")
B("C15", "exact-skips-constant-tasks", (EST, "        for estimation_task in estimation_tasks\n    ]\n    return [ExpectationValues(np.asarray([val])) for val in expectation_values_list]", "        for estimation_task in estimation_tasks\n        if not estimation_task.operator.is_constant\n    ]\n    return [ExpectationValues(np.asarray([val])) for val in expectation_values_list]"), rule="C15-D5")
T("C15", "twin-constant-term-property", (EST, "            coefficient = sum(term.coefficient for term in task.operator.terms)", "            coefficient = task.operator.constant_term"))
T("C15", "twin-allocate-by-task-count", (EST, "            len(estimation_tasks_not_to_measure) + len(estimation_tasks_to_measure)", "            len(estimation_tasks)"))
T("C15", "twin-bind-in-local", (EST, """    return [
        EstimationTask(
            operator=estimation_task.operator,
            circuit=estimation_task.circuit.bind(symbols_map),
            number_of_shots=estimation_task.number_of_shots,
        )
        for estimation_task, symbols_map in zip(estimation_tasks, symbols_maps)
    ]""", """    bound_tasks = []
    for estimation_task, symbols_map in zip(estimation_tasks, symbols_maps):
        bound = estimation_task.circuit.bind(symbols_map)
        bound_tasks.append(
            EstimationTask(estimation_task.operator, bound, estimation_task.number_of_shots)
        )
    return bound_tasks"""))

# ----------------------------------------------------------------------------- C19
SYE = "circuits/symbolic/sympy_expressions.py"
TRA = "circuits/symbolic/translations.py"
SRT = "circuits/symbolic/_sorting.py"
EXP = "circuits/symbolic/expressions.py"

B("C19", "default-arm-passes", (SYE, """    raise NotImplementedError(
        f"Expression {expression} of type {type(expression)} is currently not supported"
    )""", "    return None"), rule="C19-D1")
B("C19", "lookup-before-membership-test", (TRA, """    if function_call.name not in dialect.known_functions:
        raise ValueError(f"Function {function_call.name} is unknown in this dialect.")

    return dialect.known_functions[function_call.name](""", """    return dialect.known_functions.get(function_call.name, lambda *args: args[0])("""), rule="C19-D1")
B("C19", "add-not-folded", (SYE, '        "add": reduction(operator.add),', '        "add": operator.add,'), rule="C19-D2")
B("C19", "sqrt-removed-from-dialect", (SYE, '        "sqrt": sympy.sqrt,\n', ''), rule="C19-D2")
B("C19", "div-is-floordiv", (SYE, '        "div": operator.truediv,', '        "div": operator.floordiv,'), rule="C19-D2")
B("C19", "sub-maps-to-add", (SYE, '        "sub": operator.sub,', '        "sub": operator.add,'), rule="C19-D2")
B("C19", "tan-maps-to-tanh", (SYE, '        "tan": sympy.tan,', '        "tan": sympy.tanh,'), rule="C19-D2")
B("C19", "reciprocal-either-position", (SYE, "    return len(args) == 2 and isinstance(args[1], sympy.Pow) and args[1].args[1] == -1", "    return len(args) == 2 and any(\n        isinstance(arg, sympy.Pow) and arg.args[1] == -1 for arg in args\n    )"), rule="C19-D3")
B("C19", "reciprocal-predicate-other-position", (SYE, "    return len(args) == 2 and isinstance(args[1], sympy.Pow) and args[1].args[1] == -1", "    return len(args) == 2 and isinstance(args[0], sympy.Pow) and args[0].args[1] == -1"), rule="C19-D3")
B("C19", "reciprocal-arity-unpinned", (SYE, "    return len(args) == 2 and isinstance(args[1], sympy.Pow) and args[1].args[1] == -1", "    return len(args) >= 2 and isinstance(args[1], sympy.Pow) and args[1].args[1] == -1"), rule="C19-D3")
B("C19", "div-operands-swapped", (SYE, "                expression_from_sympy(mul.args[0]),\n                expression_from_sympy(mul.args[1].args[0]),", "                expression_from_sympy(mul.args[1].args[0]),\n                expression_from_sympy(mul.args[0]),"), rule="C19-D3")
B("C19", "sub-forgets-to-negate", (SYE, "                expression_from_sympy(_negate_sympy_expr(add.args[1])),", "                expression_from_sympy(add.args[1]),"), rule="C19-D3")
B("C19", "pow-reciprocal-of-exponent", (SYE, '        return FunctionCall("div", (1, expression_from_sympy(power.args[0])))', '        return FunctionCall("div", (1, expression_from_sympy(power.args[1])))'), rule="C19-D3")
B("C19", "sqrt-for-exponent-two", (SYE, "    elif power.args[1] == 0.5:", "    elif power.args[1] == 2:"), rule="C19-D3")
B("C19", "negate-is-identity", (SYE, "    return expr * (-1)", "    return expr * 1"), rule="C19-D3")
B("C19", "rational-truncated", (SYE, "def native_float_from_sympy_rational(number: sympy.Rational):\n    return float(number)", "def native_float_from_sympy_rational(number: sympy.Rational):\n    return int(number)"), rule="C19-D4")
B("C19", "imaginary-unit-sign", (SYE, "    return 1j", "    return -1j"), rule="C19-D4")
B("C19", "tuple-reversed", (SYE, "    return tuple(expression_from_sympy(arg) for arg in args)", "    return tuple(expression_from_sympy(arg) for arg in reversed(args))"), rule="C19-D4")
B("C19", "translate-tuple-reversed", (TRA, "    return tuple(translate_expression(element, dialect) for element in expression_tuple)", "    return tuple(translate_expression(element, dialect) for element in expression_tuple)[::-1]"), rule="C19-D4")
B("C19", "reduction-right-fold", (EXP, "        return reduce(operator, args)", "        return reduce(operator, reversed(args))"), rule="C19-D4")
B("C19", "number-factory-rounds", (SYE, "    number_factory=lambda number: number,", "    number_factory=lambda number: round(number, 6),"), rule="C19-D4")
B("C19", "drop-rational-arm", (SYE, "@expression_from_sympy.register\ndef native_float_from_sympy_rational(number: sympy.Rational):\n    return float(number)\n", ""), rule="C19-D4")
B("C19", "digit-groups-zero-padded", (SRT, "    return int(text) if text.isdigit() else text", "    return text.zfill(6) if text.isdigit() else text"), rule="C19-D5")
B("C19", "split-without-capture", (SRT, 'for group in re.split(r"(\\d+)", symbol.name)', 'for group in re.split(r"\\d+", symbol.name)'), rule="C19-D5")
B("C19", "split-single-digits", (SRT, 'for group in re.split(r"(\\d+)", symbol.name)', 'for group in re.split(r"(\\d)", symbol.name)'), rule="C19-D5")
B("C19", "revlex-not-reversed", (SRT, "    return list(reversed(natural_key(symbol)))", "    return list(natural_key(symbol))"), rule="C19-D5")
T("C19", "twin-reorder-dialect", (SYE, '        "cos": sympy.cos,\n        "sin": sympy.sin,', '        "sin": sympy.sin,\n        "cos": sympy.cos,'))
T("C19", "twin-negate-unary-minus", (SYE, "    return expr * (-1)", "    return -expr"))
T("C19", "twin-revlex-slice", (SRT, "    return list(reversed(natural_key(symbol)))", "    return natural_key(symbol)[::-1]"))
T("C19", "twin-extra-dialect-function", (SYE, '        "tan": sympy.tan,', '        "tan": sympy.tan,\n        "log": sympy.log,'))

# ----------------------------------------------------------------------------- second round (rules added after the seeded changes)
EXV = "measurements/expectation_values.py"
MMD = "distributions/mmd.py"
ORQD = "decompositions/_orquestra_decompositions.py"

B("C01", "append-empty-shortcut", (CIR, "def _append_circuit(other: Circuit, circuit: Circuit):\n    return type(circuit)(", "def _append_circuit(other: Circuit, circuit: Circuit):\n    if not other.operations:\n        return circuit\n    return type(circuit)("), rule="C01-D3")
B("C07", "xy-flagged-hermitian", (BUI, 'XY = make_parametric_gate_prototype("XY", _matrices.xy_matrix, 2)', 'XY = make_parametric_gate_prototype("XY", _matrices.xy_matrix, 2, is_hermitian=True)'), rule="C07-D6")
B("C08", "dagger-matrix-conjugate-only", (GAT, "        return self.wrapped_gate.matrix.adjoint()", "        return self.wrapped_gate.matrix.conjugate()"), rule="C08-D4")
B("C08", "iswap-flagged-hermitian", (BUI, 'ISWAP = _gates.MatrixFactoryGate("ISWAP", _matrices.iswap_matrix, (), 2)', 'ISWAP = _gates.MatrixFactoryGate("ISWAP", _matrices.iswap_matrix, (), 2, is_hermitian=True)'), rule="C08-D4")
B("C11", "parsed-zero-coefficient-dropped", (OPS, "            if _parsed_coefficient is not None:\n                coefficient = _parsed_coefficient", "            if _parsed_coefficient:\n                coefficient = _parsed_coefficient"), rule="C11-D5")
B("C11", "default-coefficient-by-truthiness", (OPS, "        self.coefficient = 1.0 if coefficient is None else coefficient", "        self.coefficient = coefficient or 1.0"), rule="C11-D5")
B("C11", "covariances-read-only-with-correlations", (EXV, """        estimator_covariances: Union[List, None] = None
        if dictionary.get("estimator_covariances") is not None:
            estimator_covariances = []
            for covariance_matrix in cast(
                Iterable, dictionary.get("estimator_covariances")
            ):
                estimator_covariances.append(convert_dict_to_array(covariance_matrix))
""", """        estimator_covariances: Union[List, None] = None
        if dictionary.get("correlations"):
            if dictionary.get("estimator_covariances"):
                estimator_covariances = []
                for covariance_matrix in cast(
                    Iterable, dictionary.get("estimator_covariances")
                ):
                    estimator_covariances.append(
                        convert_dict_to_array(covariance_matrix)
                    )
"""), rule="C11-D1")
B("C12", "symbolic-norm-unconjugated", (WF, "            probs_of_ground_entries = np.sum(np.abs(numbers) ** 2)", "            probs_of_ground_entries = np.dot(numbers, numbers).real"), rule="C12-D4")
B("C12", "numeric-norm-without-square", (WF, "            probs_of_ground_entries = np.sum(np.abs(arr) ** 2)", "            probs_of_ground_entries = np.sum(np.abs(arr))"), rule="C12-D4")
T("C12", "twin-norm-via-vdot", (WF, "            probs_of_ground_entries = np.sum(np.abs(numbers) ** 2)", "            probs_of_ground_entries = np.vdot(numbers, numbers).real"))
B("C17", "mmd-basis-vacuous-filter", (MMD, "    all_keys = set(target_keys).union(measured_keys)", "    all_keys = list(target_keys) + [\n        key for key in measured_keys if key not in measured_keys\n    ]"), rule="C17-D3m")
B("C17", "mmd-basis-target-only", (MMD, "    all_keys = set(target_keys).union(measured_keys)", "    all_keys = set(target_keys)"), rule="C17-D3m")
B("C17", "mmd-kernel-asymmetric", (MMD, "        kernel_matrix = compute_rbf_kernel(basis, basis, sigma)", "        kernel_matrix = compute_rbf_kernel(basis, basis[::-1], sigma)"), rule="C17-D3m")
T("C17", "twin-mmd-ordered-union", (MMD, "    all_keys = set(target_keys).union(measured_keys)", "    all_keys = list(target_keys) + [key for key in measured_keys if key not in target_keys]"))
B("C18", "predicate-unwraps-any-modifier", (ORQD, """        return isinstance(operation, GateOperation) and (
            operation.gate.name == "U3"
            or isinstance(operation.gate, ControlledGate)
            and operation.gate.wrapped_gate.name == "U3"
        )""", """        gate = operation.gate
        return getattr(gate, "wrapped_gate", gate).name == "U3\""""), rule="C18-D4")
B("C18", "predicate-unguarded-wrapped-gate", (ORQD, """            or isinstance(operation.gate, ControlledGate)
            and operation.gate.wrapped_gate.name == "U3\"""", """            or hasattr(operation.gate, "wrapped_gate")
            and operation.gate.wrapped_gate.name == "U3\""""), rule="C18-D4")
B("C06", "custom-gate-sequential-substitution", (GAT, "            {symbol: arg for symbol, arg in zip(self.params_ordering, gate_params)},\n            simultaneous=True,\n        )", "            {symbol: arg for symbol, arg in zip(self.params_ordering, gate_params)}\n        )"), rule="C06-D5")
T("C06", "twin-custom-gate-xreplace", (GAT, "        return self.matrix.subs(\n            {symbol: arg for symbol, arg in zip(self.params_ordering, gate_params)},\n            simultaneous=True,\n        )", "        return self.matrix.xreplace(\n            {symbol: arg for symbol, arg in zip(self.params_ordering, gate_params)}\n        )"))


# ----------------------------------------------------------------------------- defects repaired in session 3 (each variant puts one back)
B("C18", "predicate-crashes-on-non-gate-operations", ("decompositions/_orquestra_decompositions.py", "return isinstance(operation, GateOperation) and (", "return ("), rule="C18-D4")
B("C05", "definitions-not-collected-through-wrappers", (CIR, "    gate = _innermost_gate(operation.gate)\n", "    gate = operation.gate\n"), (CIR, "_innermost_gate(operation.gate).matrix_factory.gate_definition", "operation.gate.matrix_factory.gate_definition"), (CIR, "    while hasattr(gate, \"wrapped_gate\"):\n        gate = gate.wrapped_gate\n    return gate", "    return gate"), rule="C05-D2")
B("C06", "expr-arm-sequential-subs", ("circuits/_operations.py", "return parameter.subs(symbols_map, simultaneous=True)", "return parameter.subs(symbols_map)"), rule="C06-D3")
B("C10", "per-outcome-division", ("measurements/measurements.py", "    return signed_counts.sum().item() / num_measurements", "    return (signed_counts / num_measurements).sum().item()"), rule="C10-D4")
B("C13", "float-ceil", ("circuits/_itertools.py", "multiplicities = -(-n_samples // max_sample_size)", "multiplicities = math.ceil(n_samples / max_sample_size)"), rule="C13-D3")
B("C12", "saved-slice-is-a-view", ("wavefunction.py", "old_val = copy(self._amplitude_vector[idx])", "old_val = self._amplitude_vector[idx]"), rule="C12-D2")
B("C11", "load-list-str-only", ("utils.py", "    if isinstance(file, (str, os.PathLike)):\n        with open(file, \"r\") as f:\n            data = json.load(f)\n    else:\n        data = json.load(file)  # type: ignore\n\n    return data[\"list\"]", "    if isinstance(file, str):\n        with open(file, \"r\") as f:\n            data = json.load(f)\n    else:\n        data = json.load(file)  # type: ignore\n\n    return data[\"list\"]"), rule="C11-D2")
B("C01", "empty-circuit-has-no-unitary", (CIR, "        if not lifted_matrices:\n            # The empty product: a circuit without operations acts as the identity.\n            return np.eye(2**self.n_qubits)\n\n", ""), rule="C01-D2")
T("C01", "empty-product-by-initial-value", (CIR, "        if not lifted_matrices:\n            # The empty product: a circuit without operations acts as the identity.\n            return np.eye(2**self.n_qubits)\n\n        return reduce(operator.matmul, lifted_matrices)", "        return reduce(operator.matmul, lifted_matrices, np.eye(2**self.n_qubits))"))
T("C12", "saved-with-deepcopy", ("wavefunction.py", "old_val = copy(self._amplitude_vector[idx])", "old_val = np.copy(self._amplitude_vector[idx])"))
T("C06", "expr-arm-xreplace", ("circuits/_operations.py", "return parameter.subs(symbols_map, simultaneous=True)", "return parameter.xreplace(symbols_map)"))
T("C13", "integer-ceil-other-form", ("circuits/_itertools.py", "multiplicities = -(-n_samples // max_sample_size)", "multiplicities = (n_samples + max_sample_size - 1) // max_sample_size"))
T("C18", "predicate-guard-as-if", ("decompositions/_orquestra_decompositions.py", "        return isinstance(operation, GateOperation) and (", "        if not isinstance(operation, GateOperation):\n            return False\n        return ("))
B("C14", "empty-batch-lets-nonpositive-count-through", (RUN, '        if (isinstance(n_samples, int) and n_samples <= 0) or any(\n            n <= 0 for n in samples_per_circuit\n        ):', "        if any(n <= 0 for n in samples_per_circuit):"), rule="C14-D1")
T("C14", "scalar-guard-as-own-statement", (RUN, '        if (isinstance(n_samples, int) and n_samples <= 0) or any(\n            n <= 0 for n in samples_per_circuit\n        ):', "        if isinstance(n_samples, int) and n_samples <= 0:\n            raise ValueError(f\"Number of samples has to be positive, got {n_samples}\")\n        if any(n <= 0 for n in samples_per_circuit):"))
B("C18", "production-uses-rx-for-ry", ("decompositions/_orquestra_decompositions.py", "gate_decomposition = [RZ(phi), RY(theta), RZ(lambda_)]", "gate_decomposition = [RZ(phi), RZ(theta), RZ(lambda_)]"), rule="C18-D")


# ----------------------------------------------------------------------------- round 4 rules: breaking variants and benign twins
B("C12", "flip-swaps-two-axes-only", ("wavefunction.py", "        .transpose(*reversed(range(num_bits)))", "        .swapaxes(0, -1)"), rule="C12-D6")
B("C12", "flip-no-axis-permutation", ("wavefunction.py", "        .transpose(*reversed(range(num_bits)))\n", ""), rule="C12-D6")
T("C12", "twin-flip-plain-transpose", ("wavefunction.py", "        .transpose(*reversed(range(num_bits)))", "        .transpose()"))
T("C12", "twin-flip-T-and-ravel", ("wavefunction.py", "        .transpose(*reversed(range(num_bits)))\n        .reshape(2**num_bits)", "        .T.reshape(-1)"))
B("C13", "draw-keys-sorted", ("utils.py", "        keys_as_array[:] = list(probability_distribution.keys())", "        keys_as_array[:] = sorted(probability_distribution.keys())"), rule="C13-D6")
B("C13", "draw-weights-reversed", ("utils.py", "            p=list(probability_distribution.values()),", "            p=list(probability_distribution.values())[::-1],"), rule="C13-D6")
T("C13", "twin-draw-keys-as-tuple", ("utils.py", "        keys_as_array[:] = list(probability_distribution.keys())", "        keys_as_array[:] = tuple(probability_distribution.keys())"))
B("C11", "precision-present-by-truthiness", ("utils.py", '        if "precision" in dictionary:', '        if dictionary.get("precision"):'), rule="C11-D5")
T("C11", "twin-precision-present-is-not-none", ("utils.py", '        if "precision" in dictionary:', '        if dictionary.get("precision") is not None:'))
B("C10", "correlations-sized-by-len-of-operator", (MEAS, "        correlations = np.zeros((len(ising_operator.terms),) * 2, dtype=complex)", "        correlations = np.zeros((len(ising_operator),) * 2, dtype=complex)"), rule="C10-D1")
T("C10", "twin-correlations-size-in-a-local", (MEAS, "        correlations = np.zeros((len(ising_operator.terms),) * 2, dtype=complex)", "        n_terms = len(ising_operator.terms)\n        correlations = np.zeros((n_terms, n_terms), dtype=complex)"))
B("C08", "inverse-memo-on-receiver", ("circuits/_circuit.py", """        try:
            return type(self)(
                operations=[
                    op.gate.dagger(*op.qubit_indices)
                    for op in reversed(self.operations)
                ],
                n_qubits=self.n_qubits,
            )""", """        try:
            self._inverse = type(self)(
                operations=[
                    op.gate.dagger(*op.qubit_indices)
                    for op in reversed(self.operations)
                ],
                n_qubits=self.n_qubits,
            )
            return self._inverse"""), rule="C08-D5")
B("C18", "rules-taken-from-the-end", ("decompositions/_decomposition.py", "    current_rule, *remaining_rules = decomposition_rules", "    *remaining_rules, current_rule = decomposition_rules"), rule="C18-D1")
B("C02", "zero-angle-shortcut-wrong-size", (MAT, """def xx_matrix(angle):
    return""", """def _identity_at_zero(factory):
    def _factory(angle):
        if angle == 0:
            return i_matrix()
        return factory(angle)

    return _factory


@_identity_at_zero
def xx_matrix(angle):
    return"""), rule="C02-D2")
T("C02", "twin-zero-angle-shortcut-right-size", (MAT, """def rx_matrix(angle):
    return""", """def _identity_at_zero(factory):
    def _factory(angle):
        if angle == 0:
            return i_matrix()
        return factory(angle)

    return _factory


@_identity_at_zero
def rx_matrix(angle):
    return"""))
B("C01", "lifted-matrix-contiguous-shortcut", ("circuits/_gates.py", """    def lifted_matrix(self, num_qubits):
        return (""", """    def lifted_matrix(self, num_qubits):
        if self.gate.free_symbols and max(self.qubit_indices) - min(self.qubit_indices) + 1 == self.gate.num_qubits:
            return sympy.kronecker_product(sympy.eye(2 ** min(self.qubit_indices)), self.gate.matrix, sympy.eye(2 ** (num_qubits - max(self.qubit_indices) - 1)))
        return ("""), rule="C01-D5")
B("C14", "single-circuit-batch-skips-length-check", (RUN, """        samples_per_circuit = (
            len(circuits_batch) * [n_samples]
            if isinstance(n_samples, int)
            else n_samples
        )
        if len(samples_per_circuit) != len(circuits_batch):""", """        if len(circuits_batch) == 1:
            return [self.run_and_measure(circuits_batch[0], n_samples if isinstance(n_samples, int) else n_samples[0])]
        samples_per_circuit = (
            len(circuits_batch) * [n_samples]
            if isinstance(n_samples, int)
            else n_samples
        )
        if len(samples_per_circuit) != len(circuits_batch):"""), rule="C14-D1")
B("C12", "dicke-stop-test-strict", ("wavefunction.py", "                if not _most_significant_set_bit(current_value) <= n_qubits:", "                if not _most_significant_set_bit(current_value) < n_qubits:"), rule="C12-D7")
B("C12", "dicke-stop-test-one-too-far", ("wavefunction.py", "                if not _most_significant_set_bit(current_value) <= n_qubits:", "                if _most_significant_set_bit(current_value) > n_qubits + 1:"), rule="C12-D7")
B("C12", "dicke-counter-starts-at-zero", ("wavefunction.py", "            counter: int = 1\n", "            counter: int = 0\n"), rule="C12-D7")
B("C12", "dicke-seed-one-bit-short", ("wavefunction.py", '            current_value = int("1" * hamming_weight, base=2)', '            current_value = int("1" * (hamming_weight - 1) + "0", base=2)'), rule="C12-D7")
B("C12", "dicke-kept-before-tested", ("wavefunction.py", """                if not _most_significant_set_bit(current_value) <= n_qubits:
                    break
                indices.append(current_value)
                counter += 1""", """                indices.append(current_value)
                counter += 1
                if not _most_significant_set_bit(current_value) <= n_qubits:
                    break"""), rule="C12-D7")
B("C12", "msb-off-by-one", ("wavefunction.py", "    return len(bin_string) - 2", "    return len(bin_string) - 3"), rule="C12-D7")
T("C12", "twin-dicke-amplitude-from-len", ("wavefunction.py", "            amplitude = 1 / np.sqrt(counter)", "            amplitude = 1 / np.sqrt(len(indices))"))
T("C12", "twin-dicke-stop-test-gt", ("wavefunction.py", "                if not _most_significant_set_bit(current_value) <= n_qubits:", "                if _most_significant_set_bit(current_value) > n_qubits:"))
T("C12", "twin-msb-bit-length", ("wavefunction.py", "    bin_string = bin(val)\n    return len(bin_string) - 2", "    return val.bit_length()"))
B("C17", "projected-key-as-digit-string", ("distributions/_measurement_outcome_distribution.py", "            new_key = tuple(key[i] for i in active_qubits)", '            new_key = "".join(str(key[i]) for i in active_qubits)'), rule="C17-D4")
B("C17", "projected-key-comma-joined", ("distributions/_measurement_outcome_distribution.py", "            new_key = tuple(key[i] for i in active_qubits)", '            new_key = ",".join(str(key[i]) for i in active_qubits)'), rule="C17-D4")
B("C17", "one-entry-key-without-separator", ("distributions/_measurement_outcome_distribution.py", '        (",".join(map(str, key)) + ("," if len(key) == 1 else ""))', '        ",".join(map(str, key))'), rule="C17-D5")


# ----------------------------------------------------------------------------- round 5 rules: breaking variants and benign twins
B("C03", "sum-product-shortcut-on-falsy-operand", (OPS, """    def __mul__(self, other: Union[PauliRepresentation, complex]) -> "PauliSum":
        _validate_type(other)

        other_terms = (""", """    def __mul__(self, other: Union[PauliRepresentation, complex]) -> "PauliSum":
        _validate_type(other)

        if not other:
            return PauliSum()

        other_terms = ("""), rule="C03-D3")
B("C16", "term-constant-when-coefficient-vanishes", (OPS, "        return self._ops == {}\n", "        return self._ops == {} or bool(np.isclose(self.coefficient, 0.0))\n"), rule="C16-D2")
T("C16", "twin-is-constant-not-ops", (OPS, "        return self._ops == {}\n", "        return not self._ops\n"))
B("C10", "sum-is-ising-by-set-equality", (OPS, "            self._is_ising = all([term.is_ising for term in self.terms])", '            self._is_ising = {op for term in self.terms for op, _ in term} == {"Z"}'), rule="C10-D8")
T("C10", "twin-sum-is-ising-generator", (OPS, "            self._is_ising = all([term.is_ising for term in self.terms])", "            self._is_ising = all(term.is_ising for term in self.terms)"))
B("C10", "pair-loop-same-term-by-equality", (PAR, """            parity1 = check_parity_of_vector(bitstrings_vector, term1.qubits)
            parity2 = check_parity_of_vector(bitstrings_vector, term2.qubits)""", """            if term1 == term2:
                correlations[0][term1_index, term2_index][0] = bitstring_counts.sum()
                continue
            parity1 = check_parity_of_vector(bitstrings_vector, term1.qubits)
            parity2 = check_parity_of_vector(bitstrings_vector, term2.qubits)"""), rule="C10-D1")
B("C11", "list-saved-through-numpy", (UTL, '    dictionary["list"] = array\n', '    dictionary["list"] = np.asarray(array).tolist()\n'), rule="C11-D1")
T("C11", "twin-list-saved-as-list-copy", (UTL, '    dictionary["list"] = array\n', '    dictionary["list"] = list(array)\n'))
B("C13", "deficit-overwritten-without-break", (MEAS, """                correct_samples = correct_samples + new_samples
                break
""", """                correct_samples = correct_samples + new_samples
"""), rule="C13-D6")
B("C17", "preprocess-returns-callers-dictionary", (DIST, """    res_dict: Dict[Union[str, Tuple[int, ...]], float] = {}
    for key, value in input_dict.items():""", """    if all(isinstance(key, tuple) for key in input_dict):
        return input_dict
    res_dict: Dict[Union[str, Tuple[int, ...]], float] = {}
    for key, value in input_dict.items():"""), rule="C17-D1")
B("C19", "natural-key-from-groupby-runs", ("circuits/symbolic/_sorting.py", """    return [
        _convert_string_to_int_if_possible(group)
        for group in re.split(r"(\\d+)", symbol.name)
    ]""", """    from itertools import groupby

    return [
        int("".join(group)) if is_number else "".join(group)
        for is_number, group in groupby(symbol.name, key=str.isdigit)
    ]"""), rule="C19-D5")
B("C05", "builtin-lookup-case-insensitive", ("circuits/_builtin_gates.py", "    return globals()[name]\n", "    return globals()[name] if name in globals() else globals()[name.upper()]\n"), rule="C05-D4")
B("C09", "expectation-value-cast-to-real-inside", ("operators/_utils.py", "    exp_val = expectation(sparse_op, wavefunction.amplitudes)\n    return exp_val\n", "    exp_val = expectation(sparse_op, wavefunction.amplitudes)\n    return float(np.real(exp_val))\n"), rule="C09-D4")
B("C01", "empty-circuit-ignores-initial-state", (SIM, """        for is_supported, subcircuit in split_circuit(""", """        if not circuit.operations:
            return Wavefunction(np.eye(1, 2**circuit.n_qubits)[0])
        for is_supported, subcircuit in split_circuit("""), rule="C01-D1")
B("C06", "circuit-free-symbols-cached", (CIR, """    @property
    def free_symbols(self) -> List[sympy.Symbol]:""", """    @functools.cached_property
    def free_symbols(self) -> List[sympy.Symbol]:"""), rule="C06-D7")
B("C03", "exponentiation-memoised-by-tolerant-key", (OPS, """def _efficient_exponentiation(
    pauli_rep: PauliRepresentation, power: int""", """@functools.lru_cache(maxsize=512)
def _efficient_exponentiation(
    pauli_rep: PauliRepresentation, power: int"""), rule="C03-D8")
T("C12", "twin-cache-keyed-by-an-int", ("wavefunction.py", "def _most_significant_set_bit(val):", "@lru_cache()\ndef _most_significant_set_bit(val):"))

# ----------------------------------------------------------------------------- round 6 rules
EVO = "evolution.py"
B("C17", "single-entry-mark-decided-from-the-dictionary", (DIST, '("," if len(key) == 1 else "")', '("," if len(dict) == 1 else "")'), rule="C17-D5")
T("C17", "twin-single-entry-mark-via-a-local-length", (DIST, '("," if len(key) == 1 else "")', '("," if not len(key) != 1 else "")'))
B("C13", "stale-loop-variable-in-top-up", ("measurements/measurements.py", "                        tuple([int(measurement_value) for measurement_value in sample])\n                    ] * samples[sample]", "                        tuple([int(measurement_value) for measurement_value in state])\n                    ] * samples[sample]"), rule="C13-D8")
B("C16", "hamiltonian-simplified-before-trotterising", (EVO, """    # concatenate the circuits for each term
    circuit = Circuit()
    for _ in range(n_steps):""", """    hamiltonian = hamiltonian.simplify()
    circuit = Circuit()
    for _ in range(n_steps):"""), rule="C16-D2")
B("C16", "shift-index-over-a-filtered-listing", (EVO, "    for i, term_1 in enumerate(terms):", "    for i, term_1 in enumerate([t for t in terms if not t.is_constant]):"), rule="C16-D4")
B("C03", "simplify-skips-small-terms-before-merging", (OPS, """        for term in self.terms:
            key = term.operations""", """        for term in self.terms:
            if abs(term.coefficient) <= 1e-8:
                continue
            key = term.operations"""), rule="C03-D5")
B("C06", "circuit-bind-rekeys-the-map-by-name", (CIR, """        return type(self)(
            operations=[op.bind(symbols_map) for op in self.operations],""", """        symbols_map = {sympy.Symbol(str(k)): v for k, v in dict(symbols_map).items()}
        return type(self)(
            operations=[op.bind(symbols_map) for op in self.operations],"""), rule="C06-D2")
T("C06", "twin-circuit-bind-copies-the-map", (CIR, """        return type(self)(
            operations=[op.bind(symbols_map) for op in self.operations],""", """        symbols_map = dict(symbols_map)
        return type(self)(
            operations=[op.bind(symbols_map) for op in self.operations],"""))
B("C06", "operation-bind-returns-self-when-nothing-is-free", (GAT, """        return GateOperation(self.gate.bind(symbols_map), self.qubit_indices)""", """        if not self.gate.free_symbols:
            return self
        return GateOperation(self.gate.bind(symbols_map), self.qubit_indices)"""), rule="C06-D2")
B("C09", "expansion-coefficients-projected-to-real", ("operators/_utils.py", "        coeffs[i] = trace_product(current_label)\n", "        coeffs[i] = trace_product(current_label)\n        coeffs[i] = np.real(coeffs[i])\n"), rule="C09-D5")
T("C09", "twin-expansion-coefficient-through-a-temporary", ("operators/_utils.py", "        coeffs[i] = trace_product(current_label)\n", "        c_i = trace_product(current_label)\n        coeffs[i] = c_i\n"))
B("C11", "sum-parser-rewrites-minus-signs", (OPS, """            terms = [PauliTerm(s.strip()) for s in re.split(r"\\+(?![^(]*\\))", terms)]""", """            terms = re.sub(r"(?<=[\\w)])\\s*-\\s*(?![^(]*\\))", " + -", terms)
            terms = [PauliTerm(s.strip()) for s in re.split(r"\\+(?![^(]*\\))", terms)]"""), rule="C11-D3")
T("C11", "twin-sum-parser-strips-the-text-first", (OPS, """            terms = [PauliTerm(s.strip()) for s in re.split(r"\\+(?![^(]*\\))", terms)]""", """            terms = re.sub(r"^\\s+|\\s+$", "", terms)
            terms = [PauliTerm(s.strip()) for s in re.split(r"\\+(?![^(]*\\))", terms)]"""))
B("C11", "bits-written-as-stored-when-the-first-shot-is-plain", ("measurements/measurements.py", """            "bitstrings": [
                list(map(int, list(bitstring))) for bitstring in self.bitstrings
            ],""", """            "bitstrings": [
                list(map(int, list(bitstring))) for bitstring in self.bitstrings
            ]
            if not all(type(b) is int for b in next(iter(self.bitstrings), ()))
            else [list(bitstring) for bitstring in self.bitstrings],"""), rule="C11-D4")
B("C11", "zero-frames-dropped-by-the-writer", ("measurements/expectation_values.py", "        if self.correlations is not None:\n", "        if self.correlations:\n"), rule="C11-D5")
B("C11", "zero-frames-dropped-by-the-reader", ("measurements/expectation_values.py", '        if dictionary.get("estimator_covariances") is not None:\n', '        if dictionary.get("estimator_covariances"):\n'), rule="C11-D5")
B("C11", "zero-parity-frames-dropped", ("measurements/parities.py", '        if data.get("correlations") is not None:\n', '        if data.get("correlations"):\n'), rule="C11-D5")
T("C11", "twin-frames-presence-by-membership", ("measurements/parities.py", '        if data.get("correlations") is not None:\n', '        if "correlations" in data and data["correlations"] is not None:\n'))
B("C15", "few-samples-decoded-lsb-first", ("wavefunction.py", """        string_samples = rng.choice(a=outcome_strings, size=n_samples, p=probabilities)
        samples = convert_bitstrings_to_tuples(string_samples)""", """        drawn = rng.choice(a=len(outcome_strings), size=n_samples, p=probabilities)
        samples = [
            tuple((index >> qubit) & 1 for qubit in range(wavefunction.n_qubits))
            for index in drawn.tolist()
        ]"""), rule="C15-D6")
T("C04", "twin-few-samples-decoded-msb-first", ("wavefunction.py", """        string_samples = rng.choice(a=outcome_strings, size=n_samples, p=probabilities)
        samples = convert_bitstrings_to_tuples(string_samples)""", """        drawn = rng.choice(a=len(outcome_strings), size=n_samples, p=probabilities)
        samples = [
            tuple((index >> (wavefunction.n_qubits - 1 - qubit)) & 1 for qubit in range(wavefunction.n_qubits))
            for index in drawn.tolist()
        ]"""))

# ----------------------------------------------------------------------------- round 7 rules
B("C09", "is-hermitian-answers-true-for-constants", ("operators/_openfermion_utils/operator_utils.py", """    if isinstance(operator, (PauliSum, PauliTerm)):
        return operator == hermitian_conjugated(operator)""", """    if isinstance(operator, (PauliSum, PauliTerm)):
        if operator.is_constant:
            return True
        return operator == hermitian_conjugated(operator)"""), rule="C09-D2")
B("C17", "non-negativity-with-a-tolerance-disjunct", (DIST, "    return all(value >= 0 for value in input_dict.values())", "    return all(value >= 0 or math.isclose(value, 0.0, abs_tol=1e-12) for value in input_dict.values())"), rule="C17-D1")
T("C17", "twin-non-negativity-written-as-not-less-than", (DIST, "    return all(value >= 0 for value in input_dict.values())", "    return all(0 <= value for value in input_dict.values())"))
B("C03", "mul-shortcut-for-a-constant-left-operand", (OPS, """        elif isinstance(other, PauliTerm):
            result_term = self.copy(new_coefficient=1)""", """        elif isinstance(other, PauliTerm):
            if self.is_constant:
                return other.copy()
            result_term = self.copy(new_coefficient=1)"""), rule="C03-D3")
T("C03", "twin-mul-shortcut-that-keeps-the-coefficient", (OPS, """        elif isinstance(other, PauliTerm):
            result_term = self.copy(new_coefficient=1)""", """        elif isinstance(other, PauliTerm):
            if self.is_constant:
                return other.copy(new_coefficient=self.coefficient * other.coefficient)
            result_term = self.copy(new_coefficient=1)"""))
B("C11", "precision-written-only-when-truthy", ("utils.py", """        if type(self.precision).__module__ == np.__name__:
            data["precision"] = self.precision.item()
        else:
            data["precision"] = self.precision
""", """        if self.precision:
            if type(self.precision).__module__ == np.__name__:
                data["precision"] = self.precision.item()
            else:
                data["precision"] = self.precision
"""), rule="C11-D5")
B("C19", "product-arm-answers-with-a-native-literal", ("circuits/symbolic/sympy_expressions.py", """    if is_multiplication_by_reciprocal(mul):""", """    if mul.is_number and mul.args[1] == sympy.I:
        return complex(0, float(mul.args[0]))
    elif is_multiplication_by_reciprocal(mul):"""), rule="C19-D3")
B("C18", "ry-dropped-for-whole-turns", ("decompositions/_orquestra_decompositions.py", """        gate_decomposition = [RZ(phi), RY(theta), RZ(lambda_)]
""", """        gate_decomposition = [RZ(phi), RY(theta), RZ(lambda_)]
        if theta == 0:
            gate_decomposition = [RZ(phi), RZ(lambda_)]
"""), rule="C18-D4")
B("C02", "non-parametric-factories-cached-through-an-alias", ("circuits/_matrices.py", """import numpy as np
import sympy
""", """from functools import lru_cache

import numpy as np
import sympy

_constant = lru_cache(maxsize=None)
"""), ("circuits/_matrices.py", """def x_matrix():
    return sympy.Matrix([[0, 1], [1, 0]])""", """@_constant
def x_matrix():
    return sympy.Matrix([[0, 1], [1, 0]])"""), rule="C02-D4")
B("C12", "dicke-vectors-remembered-in-a-module-table", ("wavefunction.py", """            amplitude = 1 / np.sqrt(counter)
            wf = np.zeros(2**n_qubits, dtype=np.complex128)
            wf[indices] = amplitude
""", """            amplitude = 1 / np.sqrt(counter)
            wf = np.zeros(2**n_qubits, dtype=np.complex128)
            wf[indices] = amplitude
            _DICKE[n_qubits, hamming_weight] = wf
"""), ("wavefunction.py", """class Wavefunction:
    \"\"\"""", """_DICKE: dict = {}


class Wavefunction:
    \"\"\""""), rule="C12-D3")
B("C04", "outcome-probabilities-remembered-on-the-wavefunction", ("wavefunction.py", """        probs = self.get_probabilities()

        return dict(zip(values, probs))""", """        probs = self.get_probabilities()

        self._outcome_probs = dict(zip(values, probs))
        return self._outcome_probs"""), rule="C04-D10")
