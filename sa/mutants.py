"""Self-test battery: breaking edits (must be reported) and benign twins (must pass).

Each entry edits the *current* tree by exact substring replacement (analysed in memory
only). ``B`` = breaking, ``T`` = benign twin. Paths are relative to src/orquestra/quantum.
"""
from __future__ import annotations

from typing import List

P = "src/orquestra/quantum/"
MUTANTS: List[dict] = []


def _add(prop, name, edits, expect, rule):
    if isinstance(edits, tuple) and isinstance(edits[0], str):
        edits = [edits]
    MUTANTS.append({"prop": prop, "name": name, "edits": [(P + f, old, new) for f, old, new in edits], "expect": expect, "rule": rule})


def B(prop, name, *edits, rule=None):
    _add(prop, name, list(edits), "violation", rule)


def T(prop, name, *edits):
    _add(prop, name, list(edits), "pass", None)


# ----------------------------------------------------------------------------- C01
SIM = "api/wavefunction_simulator.py"
CIR = "circuits/_circuit.py"
GAT = "circuits/_gates.py"
UNI = "circuits/_unitary_tools.py"
SYM = "runners/symbolic_simulator.py"

B("C01", "drop-store-of-apply", (SIM, "                    state = operation.apply(state)", "                    operation.apply(state)"), rule="C01-D1")
B("C01", "stale-initial-state", (SIM, "self._get_wavefunction_from_native_circuit(subcircuit, state)", "self._get_wavefunction_from_native_circuit(subcircuit, initial_state)"), rule="C01-D1")
B("C01", "reversed-segment-ops", (SIM, "for operation in subcircuit.operations:", "for operation in reversed(subcircuit.operations):"), rule="C01-D1")
B("C01", "swap-native-branches", (SIM, "            if is_supported:", "            if not is_supported:"), rule="C01-D1")
B("C01", "symbolic-sim-reversed", (SYM, "for operation in circuit.operations:", "for operation in circuit.operations[::-1]:"), rule="C01-D1")
B("C01", "symbolic-sim-stale", (SYM, "            state = operation.apply(state)", "            state = operation.apply(initial_state)"), rule="C01-D1")
B("C01", "whole-circuit-to-native", (SIM, "self._get_wavefunction_from_native_circuit(subcircuit, state)", "self._get_wavefunction_from_native_circuit(circuit, state)"), rule="C01-D1")
B("C01", "fresh-state-wrong-size", (SIM, "state = np.zeros(2**circuit.n_qubits)", "state = np.zeros(2 ** len(circuit.operations))"), rule="C01-D1")
B("C01", "unreverse-to-unitary", (CIR, "for op in reversed(self.operations):\n            if isinstance", "for op in self.operations:\n            if isinstance"), rule="C01-D2")
B("C01", "min-width-append-circuit", (CIR, "n_qubits=max(circuit.n_qubits, other.n_qubits),", "n_qubits=min(circuit.n_qubits, other.n_qubits),"), rule="C01-D3")
B("C01", "swap-append-order", (CIR, "operations=[*circuit.operations, *other.operations],", "operations=[*other.operations, *circuit.operations],"), rule="C01-D3")
B("C01", "append-op-width-max-index", (CIR, "n_qubits_by_operation = max(other.qubit_indices) + 1", "n_qubits_by_operation = max(other.qubit_indices)"), rule="C01-D3")
B("C01", "append-op-ignores-left-width", (CIR, "n_qubits=max(circuit.n_qubits, n_qubits_by_operation),", "n_qubits=n_qubits_by_operation,"), rule="C01-D3")
B("C01", "split-drops-width", (CIR, "yield predicate_value, Circuit(operations, n_qubits=n_qubits)", "yield predicate_value, Circuit(operations)"), rule="C01-D3w")
B("C01", "to-unitary-skips-non-gates", (CIR, """                raise ValueError(
                    f"Operation {op} is not a gate operation and so circuit cannot"
                    "be converted to a unitary matrix."
                )""", "                continue"), rule="C01-D4")
B("C01", "numeric-path-reversed-indices", (GAT, "else _lift_matrix_numpy(self.gate.matrix, self.qubit_indices, num_qubits)", "else _lift_matrix_numpy(self.gate.matrix, self.qubit_indices[::-1], num_qubits)"), rule="C01-D5")
B("C01", "apply-from-right", (GAT, "return self.lifted_matrix(int(num_qubits)) @ amplitude_vector", "return amplitude_vector @ self.lifted_matrix(int(num_qubits))"), rule="C01-D5")
B("C01", "outer-kron-swapped", (UNI, "[eye(2**smallest), inner_matrix, eye(2 ** (num_qubits - largest - 1))]", "[eye(2 ** (num_qubits - largest - 1)), inner_matrix, eye(2**smallest)]"), rule="C01-D6")
B("C01", "conjugation-inverted", (UNI, "perm_matrix.transpose() @ inner_gate_matrix @ perm_matrix", "perm_matrix @ inner_gate_matrix @ perm_matrix.transpose()"), rule="C01-D6")
B("C01", "perm-filled-by-rows", (UNI, "perm_matrix[:, i] = bitstring_to_dense_vector(output_state)", "perm_matrix[i, :] = bitstring_to_dense_vector(output_state)"), rule="C01-D6")
B("C01", "active-qubits-last-in-perm-only", (UNI, """    return list(qubit_indices) + [
        i for i in range(num_qubits) if i not in qubit_indices
    ]""", """    return [
        i for i in range(num_qubits) if i not in qubit_indices
    ] + list(qubit_indices)"""), rule="C01-D6")
T("C01", "twin-forward-iteration-right-fold", (CIR, "for op in reversed(self.operations):\n            if isinstance", "for op in self.operations:\n            if isinstance"),
  (CIR, "return reduce(operator.matmul, lifted_matrices)", "return reduce(lambda acc, m: m @ acc, lifted_matrices)"))
T("C01", "twin-rename-state", (SYM, """        state = initial_state

        for operation in circuit.operations:
            state = operation.apply(state)

        return state""", """        psi = initial_state

        for gate_op in circuit.operations:
            psi = gate_op.apply(psi)

        return psi"""))
T("C01", "twin-inversions-cancel", (UNI, "perm_matrix.transpose() @ inner_gate_matrix @ perm_matrix", "perm_matrix @ inner_gate_matrix @ perm_matrix.transpose()"),
  (UNI, "perm_matrix[:, i] = bitstring_to_dense_vector(output_state)", "perm_matrix[i, :] = bitstring_to_dense_vector(output_state)"))
T("C01", "twin-max-as-conditional", (CIR, "n_qubits=max(circuit.n_qubits, other.n_qubits),", "n_qubits=circuit.n_qubits if circuit.n_qubits >= other.n_qubits else other.n_qubits,"))
T("C01", "twin-concat-with-plus", (CIR, "operations=[*circuit.operations, *other.operations],", "operations=list(circuit.operations) + list(other.operations),"))

# ----------------------------------------------------------------------------- C20
OPS = "operators/_pauli_operators.py"
MEAS = "measurements/measurements.py"
DIST = "distributions/_measurement_outcome_distribution.py"
WF = "wavefunction.py"
OIO = "operators/_io.py"

B("C20", "simplify-edits-term-in-place", (OPS, "                    terms.append(term_list[0].copy(new_coefficient=coeff))", "                    term_list[0].coefficient = coeff\n                    terms.append(term_list[0])"), rule="C20-D1")
B("C20", "get-counts-sorts-alias", (MEAS, "        bitstrings = convert_tuples_to_bitstrings(self.bitstrings)\n        return dict(Counter(bitstrings))", "        raw = self.bitstrings\n        raw.sort()\n        bitstrings = convert_tuples_to_bitstrings(raw)\n        return dict(Counter(bitstrings))"), rule="C20-D1")
B("C20", "append-mutates-through-callee", (CIR, """    n_qubits_by_operation = max(other.qubit_indices) + 1
    return type(circuit)(
        operations=[*circuit.operations, other],
        n_qubits=max(circuit.n_qubits, n_qubits_by_operation),
    )""", """    n_qubits_by_operation = max(other.qubit_indices) + 1
    circuit.operations.append(other)
    return type(circuit)(
        operations=[*circuit.operations],
        n_qubits=max(circuit.n_qubits, n_qubits_by_operation),
    )"""), rule="C20-D1")
B("C20", "subdistribution-pops-source", (DIST, "new_counts[new_key] = self.distribution_dict[key] + new_counts.get(", "new_counts[new_key] = self.distribution_dict.pop(key) + new_counts.get("), rule="C20-D1")
B("C20", "probabilities-squared-in-place", (WF, "        return np.abs(self.amplitudes) ** 2", "        amps = self.amplitudes\n        amps **= 2\n        return np.abs(amps)"), rule="C20-D1")
B("C20", "op-to-dict-sorts-terms", (OIO, "    for term in op.terms:\n        term_dict: Dict[str, Any] = {", "    op.terms.sort(key=str)\n    for term in op.terms:\n        term_dict: Dict[str, Any] = {"), rule="C20-D1")
B("C20", "expectation-values-reverses-operator", (MEAS, "        bitstring_frequencies = self.get_counts()\n        num_measurements = len(self.bitstrings)\n\n        # Perform weighted average", "        bitstring_frequencies = self.get_counts()\n        num_measurements = len(self.bitstrings)\n        ising_operator.terms.reverse()\n\n        # Perform weighted average"), rule="C20-D1")
B("C20", "ctor-normalises-callers-dict", (DIST, """    res_dict: Dict[Union[str, Tuple[int, ...]], float] = {}
    for key, value in input_dict.items():""", """    res_dict: Dict[Union[str, Tuple[int, ...]], float] = {}
    if all(isinstance(key, tuple) for key in input_dict):
        return input_dict
    for key, value in input_dict.items():"""), rule="C20-D1")
B("C20", "unfreeze-dagger", (GAT, "@dataclass(frozen=True)\nclass Dagger(Gate):", "@dataclass\nclass Dagger(Gate):"), rule="C20-D2")
B("C20", "setattr-bypass-in-bind", (GAT, "    def bind(self, symbols_map) -> \"MatrixFactoryGate\":\n        return self.replace_params(", "    def bind(self, symbols_map) -> \"MatrixFactoryGate\":\n        object.__setattr__(self, \"params\", tuple(self.params))\n        return self.replace_params("), rule="C20-D2")
B("C20", "circuit-keeps-callers-list", (CIR, "self._operations = list(operations) if operations is not None else []", "self._operations = operations if operations is not None else []"), rule="C20-D3")
B("C20", "memo-unguarded", (OPS, "        if not hasattr(self, \"_is_ising\"):\n            self._is_ising = all([term.is_ising for term in self.terms])", "        self._is_ising = all([term.is_ising for term in self.terms])"), rule="C20-D1")
B("C20", "bind-returns-self-when-no-symbols", (CIR, "        return type(self)(\n            operations=[op.bind(symbols_map) for op in self.operations],", "        if not symbols_map:\n            return self\n        return type(self)(\n            operations=[op.bind(symbols_map) for op in self.operations],"), rule="C20-D3")
T("C20", "twin-sort-a-copy", (MEAS, "        bitstrings = convert_tuples_to_bitstrings(self.bitstrings)\n        return dict(Counter(bitstrings))", "        raw = list(self.bitstrings)\n        raw.sort()\n        bitstrings = convert_tuples_to_bitstrings(raw)\n        return dict(Counter(bitstrings))"))
T("C20", "twin-simplify-copy-then-edit", (OPS, "                    terms.append(term_list[0].copy(new_coefficient=coeff))", "                    merged = term_list[0].copy()\n                    merged.coefficient = coeff\n                    terms.append(merged)"))
T("C20", "twin-new-memo-free-property", (OPS, "        return set(self._ops.keys())", "        qubits = set(self._ops.keys())\n        qubits.discard(-1)\n        return qubits"))
