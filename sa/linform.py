"""LINFORM: tiny symbolic normal forms for extracted arithmetic expressions.

``poly(expr)`` evaluates an expression built from names / attribute chains (atoms), numeric
literals, ``+ - * /`` and integer powers into a *Laurent polynomial*: a dict mapping a
monomial (sorted tuple of (atom, exponent)) to a rational coefficient. Two expressions are
equal as functions of their atoms iff their normal forms are equal. Anything else (calls
other than the allow-listed identity wrappers, comparisons, ...) yields None.

This is constant folding on extracted formulas, not an execution of repo code.
"""
from __future__ import annotations

import ast
from fractions import Fraction
from typing import Callable, Dict, Optional, Tuple

from .astutil import dotted, norm

Mono = Tuple[Tuple[str, int], ...]
Poly = Dict[Mono, Fraction]

IDENTITY_CALLS = {"float", "int", "complex"}  # numeric casts do not change the value for our purposes


def _mul_mono(a: Mono, b: Mono) -> Mono:
    d: Dict[str, int] = dict(a)
    for k, e in b:
        d[k] = d.get(k, 0) + e
    return tuple(sorted((k, e) for k, e in d.items() if e != 0))


def p_const(c) -> Poly:
    c = Fraction(c).limit_denominator(10**12) if not isinstance(c, Fraction) else c
    return {(): c} if c != 0 else {}


def p_atom(name: str) -> Poly:
    return {((name, 1),): Fraction(1)}


def p_add(a: Poly, b: Poly, sign: int = 1) -> Poly:
    out = dict(a)
    for m, c in b.items():
        out[m] = out.get(m, Fraction(0)) + sign * c
        if out[m] == 0:
            del out[m]
    return out


def p_mul(a: Poly, b: Poly) -> Poly:
    out: Poly = {}
    for m1, c1 in a.items():
        for m2, c2 in b.items():
            m = _mul_mono(m1, m2)
            out[m] = out.get(m, Fraction(0)) + c1 * c2
            if out[m] == 0:
                del out[m]
    return out


def p_inv(a: Poly) -> Optional[Poly]:
    """Inverse of a single-term polynomial (monomial)."""
    if len(a) != 1:
        return None
    (m, c), = a.items()
    if c == 0:
        return None
    return {tuple(sorted((k, -e) for k, e in m)): 1 / c}


def poly(expr: ast.AST, resolve: Optional[Callable[[ast.AST], Optional[ast.AST]]] = None, depth: int = 0) -> Optional[Poly]:
    """Normal form of ``expr``. ``resolve(name_node)`` may return the defining expression of a
    local name (single assignment) to be expanded in place."""
    if depth > 25:
        return None
    if isinstance(expr, ast.Constant):
        v = expr.value
        if isinstance(v, bool) or not isinstance(v, (int, float)):
            return None
        return p_const(Fraction(v).limit_denominator(10**12) if isinstance(v, float) else Fraction(v))
    if isinstance(expr, ast.Name):
        if resolve is not None:
            d = resolve(expr)
            if d is not None:
                return poly(d, resolve, depth + 1)
        return p_atom(expr.id)
    if isinstance(expr, ast.Attribute):
        d = dotted(expr)
        if d is None:
            return None
        if d in ("np.pi", "numpy.pi", "math.pi", "sympy.pi"):
            return p_atom("pi")
        return p_atom(d)
    if isinstance(expr, ast.UnaryOp):
        inner = poly(expr.operand, resolve, depth + 1)
        if inner is None:
            return None
        if isinstance(expr.op, ast.USub):
            return p_mul(p_const(-1), inner)
        if isinstance(expr.op, ast.UAdd):
            return inner
        return None
    if isinstance(expr, ast.BinOp):
        l = poly(expr.left, resolve, depth + 1)
        r = poly(expr.right, resolve, depth + 1)
        if l is None or r is None:
            return None
        if isinstance(expr.op, ast.Add):
            return p_add(l, r)
        if isinstance(expr.op, ast.Sub):
            return p_add(l, r, -1)
        if isinstance(expr.op, ast.Mult):
            return p_mul(l, r)
        if isinstance(expr.op, ast.Div):
            inv = p_inv(r)
            return None if inv is None else p_mul(l, inv)
        if isinstance(expr.op, ast.Pow):
            if len(r) == 1 and () in r and r[()].denominator == 1:
                n = int(r[()])
                base = l
                if n < 0:
                    base = p_inv(l)
                    if base is None:
                        return None
                    n = -n
                out = p_const(1)
                for _ in range(n):
                    out = p_mul(out, base)
                return out
            if not r:
                return p_const(1)
            return None
        return None
    if isinstance(expr, ast.Call):
        name = (dotted(expr.func) or "").split(".")[-1]
        if name in IDENTITY_CALLS and len(expr.args) == 1 and not expr.keywords:
            return poly(expr.args[0], resolve, depth + 1)
        return None
    if isinstance(expr, ast.Subscript):
        # an indexed atom such as qubit_indices[i + 1] is opaque but stable
        return p_atom(norm(expr))
    return None


def poly_eq(a: Optional[Poly], b: Optional[Poly]) -> bool:
    return a is not None and b is not None and a == b


def show(p: Optional[Poly]) -> str:
    if p is None:
        return "<not polynomial>"
    if not p:
        return "0"
    parts = []
    for m, c in sorted(p.items(), key=lambda x: repr(x[0])):
        mono = "*".join(f"{k}" + (f"^{e}" if e != 1 else "") for k, e in m)
        parts.append(f"{c}" + (f"*{mono}" if mono else ""))
    return " + ".join(parts)
