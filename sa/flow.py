"""Def-use / provenance helpers on a single function (flow-insensitive, conservative).

``Defs`` records, for every local name, the expressions it may be bound to (assignments,
augmented assignments, ``for``/comprehension targets -> element of the iterable, ``with
... as``, walrus). ``atoms(expr)`` returns the set of *root atoms* an expression derives
from after transitively expanding local names: dotted attribute chains rooted at
parameters/free names (``circuit.n_qubits`` contributes ``circuit.n_qubits`` and
``circuit``), call names (``call:max``) and literal markers.
"""
from __future__ import annotations

import ast
from typing import Dict, Iterable, List, Optional, Sequence, Set, Tuple

from .astutil import body_walk, dotted, norm, param_names, target_names, walk_local


class ElementOf:
    """Marker: a name bound to an element of ``iterable`` (for/comprehension target)."""

    def __init__(self, iterable: ast.AST, index: Optional[int] = None):
        self.iterable = iterable
        self.index = index  # position inside a tuple target, when known


class Defs:
    def __init__(self, func: ast.AST):
        self.func = func
        self.params = param_names(func)
        self.defs: Dict[str, List[object]] = {}
        self.assign_stmts: Dict[str, List[ast.stmt]] = {}
        self._collect()

    def _bind(self, target: ast.AST, value: object, stmt: Optional[ast.stmt] = None):
        if isinstance(target, ast.Name):
            self.defs.setdefault(target.id, []).append(value)
            if stmt is not None:
                self.assign_stmts.setdefault(target.id, []).append(stmt)
        elif isinstance(target, (ast.Tuple, ast.List)):
            for i, elt in enumerate(target.elts):
                if isinstance(value, ElementOf):
                    self._bind(elt, ElementOf(value.iterable, i if value.index is None else value.index), stmt)
                elif isinstance(value, (ast.Tuple, ast.List)) and len(value.elts) == len(target.elts) and not any(isinstance(e, ast.Starred) for e in list(value.elts) + list(target.elts)):
                    self._bind(elt, value.elts[i], stmt)
                else:
                    self._bind(elt, TupleItem(value, i), stmt)
        elif isinstance(target, ast.Starred):
            self._bind(target.value, value, stmt)

    def _collect(self):
        for node in body_walk(self.func):
            if isinstance(node, ast.Assign):
                for t in node.targets:
                    self._bind(t, node.value, node)
            elif isinstance(node, ast.AnnAssign) and node.value is not None:
                self._bind(node.target, node.value, node)
            elif isinstance(node, ast.AugAssign):
                self._bind(node.target, node.value, node)
            elif isinstance(node, (ast.For, ast.AsyncFor)):
                self._bind(node.target, ElementOf(node.iter), node)
            elif isinstance(node, ast.comprehension):
                self._bind(node.target, ElementOf(node.iter))
            elif isinstance(node, (ast.With, ast.AsyncWith)):
                for item in node.items:
                    if item.optional_vars is not None:
                        self._bind(item.optional_vars, item.context_expr, node)
            elif isinstance(node, ast.NamedExpr):
                self._bind(node.target, node.value)
            elif isinstance(node, ast.ExceptHandler) and node.name:
                self.defs.setdefault(node.name, []).append(node.type if node.type is not None else ast.Constant(value=None))

    def is_local(self, name: str) -> bool:
        return name in self.defs

    def single_def(self, name: str):
        ds = self.defs.get(name, [])
        return ds[0] if len(ds) == 1 else None

    # ------------------------------------------------------------ derivation
    def atoms(self, expr: object, _seen: Optional[Set[str]] = None) -> Set[str]:
        seen = set() if _seen is None else _seen
        out: Set[str] = set()
        if isinstance(expr, ElementOf):
            inner = self.atoms(expr.iterable, seen)
            out |= inner
            return out
        if isinstance(expr, TupleItem):
            return self.atoms(expr.value, seen)
        if expr is None or not isinstance(expr, ast.AST):
            return out
        for n in walk_local(expr):
            if isinstance(n, ast.Attribute):
                d = dotted(n)
                if d is not None:
                    parts = d.split(".")
                    root = parts[0]
                    if root in self.defs and root not in self.params:
                        # local: substitute; attribute of a local contributes "<atom>.attr" too
                        continue
                    for i in range(1, len(parts) + 1):
                        out.add(".".join(parts[:i]))
            elif isinstance(n, ast.Name) and isinstance(n.ctx, ast.Load):
                if n.id in self.defs and n.id not in seen:
                    seen.add(n.id)
                    for d in self.defs[n.id]:
                        out |= self.atoms(d, seen)
                    if n.id in self.params:
                        out.add(n.id)
                elif n.id not in self.defs:
                    out.add(n.id)
            elif isinstance(n, ast.Call):
                d = dotted(n.func)
                if d is not None:
                    out.add("call:" + d.split(".")[-1])
        # attribute chains rooted at locals: expand root then append suffix
        for n in walk_local(expr):
            if isinstance(n, ast.Attribute):
                d = dotted(n)
                if d is None:
                    continue
                parts = d.split(".")
                root = parts[0]
                if root in self.defs and root not in self.params:
                    key = "attr:" + d
                    if key in seen:
                        continue
                    seen.add(key)
                    for dd in self.defs[root]:
                        for a in self.atoms(dd, set(seen)):
                            if a.startswith("call:"):
                                continue
                            out.add(a)
                            out.add(a + "." + ".".join(parts[1:]))
        return out

    def derives_from(self, expr: object, source: str) -> bool:
        return source in self.atoms(expr)


class TupleItem:
    def __init__(self, value: object, index: int):
        self.value = value
        self.index = index


def is_max2(expr: ast.AST) -> Optional[Tuple[ast.AST, ast.AST]]:
    """If expr denotes max(x, y) of two expressions, return (x, y).

    Accepted idioms: ``max(x, y)``, ``x if x > y else y`` and the three mirrored forms
    (decided by evaluating the conditional over the orderings x<y, x=y, x>y)."""
    if isinstance(expr, ast.Call) and dotted(expr.func) in ("max", "builtins.max", "np.maximum", "numpy.maximum") and len(expr.args) == 2 and not expr.keywords:
        return expr.args[0], expr.args[1]
    if isinstance(expr, ast.IfExp) and isinstance(expr.test, ast.Compare) and len(expr.test.ops) == 1:
        a, b = expr.test.left, expr.test.comparators[0]
        na, nb, nbody, nelse = norm(a), norm(b), norm(expr.body), norm(expr.orelse)
        if {nbody, nelse} != {na, nb} or na == nb:
            return None
        op = expr.test.ops[0]
        ok = True
        for va, vb in ((0, 1), (1, 1), (1, 0)):
            if isinstance(op, ast.Gt):
                t = va > vb
            elif isinstance(op, ast.GtE):
                t = va >= vb
            elif isinstance(op, ast.Lt):
                t = va < vb
            elif isinstance(op, ast.LtE):
                t = va <= vb
            else:
                return None
            chosen = nbody if t else nelse
            val = va if chosen == na else vb
            if val != max(va, vb):
                ok = False
        return (a, b) if ok else None
    return None


def concat_parts(expr: ast.AST) -> Optional[List[ast.AST]]:
    """Ordered parts of a sequence concatenation expression, or None if not one.

    ``[*a, *b]``, ``[*a, x]``, ``a + b``, ``list(chain(a, b))``, ``list(a) + list(b)``,
    ``tuple(...)`` thereof. A plain (non-starred) element is returned as an ast.List
    holding it so callers can derive from it uniformly."""
    if isinstance(expr, (ast.List, ast.Tuple)):
        parts: List[ast.AST] = []
        for e in expr.elts:
            if isinstance(e, ast.Starred):
                parts.append(e.value)
            else:
                parts.append(e)
        return parts
    if isinstance(expr, ast.BinOp) and isinstance(expr.op, ast.Add):
        left = concat_parts(expr.left) or [expr.left]
        right = concat_parts(expr.right) or [expr.right]
        return left + right
    if isinstance(expr, ast.Call):
        name = dotted(expr.func) or ""
        base = name.split(".")[-1]
        if base in ("list", "tuple") and len(expr.args) == 1:
            inner = concat_parts(expr.args[0])
            return inner if inner is not None else [expr.args[0]]
        if base == "chain" and expr.args:
            return list(expr.args)
    return None


class Expander:
    """Expands local names bound exactly once (plain assignment, not a loop/with target) into their defining
    expressions, recursively: lets a rule compare what is *computed* without depending on how a refactoring
    names its intermediate values."""

    def __init__(self, func: ast.AST, keep: Iterable[str] = ()):
        import copy as _copy

        self._copy = _copy
        self.defs = Defs(func)
        self.keep = set(keep) | set(self.defs.params)
        self.loop_targets: Set[str] = set()
        for n in body_walk(func):
            if isinstance(n, (ast.For, ast.AsyncFor)):
                self.loop_targets |= set(target_names(n.target))
            elif isinstance(n, ast.comprehension):
                self.loop_targets |= set(target_names(n.target))
            elif isinstance(n, (ast.With, ast.AsyncWith)):
                for it in n.items:
                    if it.optional_vars is not None:
                        self.loop_targets |= set(target_names(it.optional_vars))

    def definition(self, name: str) -> Optional[ast.AST]:
        if name in self.keep or name in self.loop_targets:
            return None
        ds = self.defs.defs.get(name, [])
        stmts = self.defs.assign_stmts.get(name, [])
        if len(ds) != 1 or not isinstance(ds[0], ast.AST) or (stmts and isinstance(stmts[0], ast.AugAssign)):
            return None
        return ds[0]

    def expand(self, expr: ast.AST, depth: int = 8) -> ast.AST:
        ex = self

        class T(ast.NodeTransformer):
            def __init__(self, d):
                self.d = d

            def visit_Name(self, node):
                if isinstance(node.ctx, ast.Load) and self.d > 0:
                    v = ex.definition(node.id)
                    if v is not None:
                        return T(self.d - 1).visit(ex._copy.deepcopy(v))
                return node

            def visit_Lambda(self, node):
                return node

        return T(depth).visit(self._copy.deepcopy(expr))

    def text(self, expr: ast.AST) -> str:
        return norm(self.expand(expr))
