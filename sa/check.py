"""Driver: ``python -m sa.check Cxx [--tier quick|thorough] [--repo /repo]``.

Exit 0 = every obligation discharged (known findings are printed as KNOWN-FINDING);
exit 1 = at least one unlisted violation (``VIOLATION property=<id> replay=<path>``);
exit 2 = ANALYSIS-ERROR (anchor vanished, parse failure, vacuity floor, unknown shape,
or a crash of the checker itself) — never a silent pass.
"""
from __future__ import annotations

import argparse
import importlib
import os
import sys
import time
import traceback


def main(argv=None) -> int:
    ap = argparse.ArgumentParser()
    ap.add_argument("prop")
    ap.add_argument("--tier", default=os.environ.get("VERIF_TIER", "quick"), choices=["quick", "thorough"])
    ap.add_argument("--repo", default=os.environ.get("SA_REPO", "/repo"))
    ap.add_argument("--only", default=None, help="only report obligations whose rule id starts with this")
    ap.add_argument("--replay", default=None, help="replay file written by an earlier run")
    ap.add_argument("--no-selftest", action="store_true")
    args = ap.parse_args(argv)

    started = time.time()
    prop = args.prop.upper()
    if args.replay:
        import json

        with open(args.replay) as f:
            rp = json.load(f)
        prop = rp["property"]
        args.only = rp["rule"].split(" ")[0]

    from .model import AnchorMissing, Repo
    from .report import Ctx, finish

    try:
        repo, ctx, mod = run_views(prop, args.repo, None, args.tier)
        if repo.parse_errors:
            for e in repo.parse_errors:
                print(f"ANALYSIS-ERROR property={prop} cannot parse {e}")
            return 2
        if args.tier == "thorough" and hasattr(mod, "run_thorough"):
            mod.run_thorough(ctx)
        if args.only:
            ctx.obligations = [o for o in ctx.obligations if o.rule.startswith(args.only)]
            ctx.floors = {k: v for k, v in ctx.floors.items() if k.startswith(args.only)}
        code = finish(
            ctx,
            started,
            explanation=mod.EXPLANATION,
            rule_text=mod.RULE_TEXT,
            assumptions=list(getattr(mod, "ASSUMPTIONS", [])) + COMMON_ASSUMPTIONS,
        )
        if code == 0 and args.tier == "thorough" and not args.no_selftest and not args.only:
            from . import selftest

            st = selftest.run_for_property(prop, jobs=int(os.environ.get("SA_JOBS", "16")))
            if st != 0:
                print(f"ANALYSIS-ERROR property={prop} self-test of the checker failed (see above)")
                return 2
        return code
    except AnchorMissing as e:
        print(f"ANALYSIS-ERROR property={prop} anchor missing: {e}")
        return 2
    except Exception:  # the checker itself crashed: never report that as a violation
        traceback.print_exc()
        print(f"ANALYSIS-ERROR property={prop} checker crashed (traceback above)")
        return 2


def _group(o) -> str:
    """obligations a rule emits about one function: rule id + `module:qualname` of the construct"""
    parts = o.construct.split(":")
    return o.rule.split(" ")[0] + "|" + ":".join(parts[:2])


def run_views(prop: str, repo_root: str, overrides, tier: str):
    """Evaluate the rules on the live view and, if something is not discharged, on the canonical view as well.

    The canonical view replaces every function that differs from the verified reference by its canonical normal form (an
    equivalent program). Per (rule, function) group the live verdict stands unless the whole group is discharged on the
    canonical view: a rule that merely failed to recognise a restructured function then gets a second, normalised look at
    it, while a group with a violation in both views stays a violation. A group the live view leaves undecided and the canonical
    view decides as a violation is a violation (the normal form is the same program)."""
    from .cfg import clear_cache
    from .model import Repo
    from .report import Ctx, OK, INFO

    clear_cache()
    repo = Repo(repo_root, overrides=overrides)
    if repo.parse_errors:
        return repo, None, None
    mod = importlib.import_module(f"sa.props.{prop.lower()}")
    ctx = Ctx(prop, repo, tier)
    err_a = None
    try:
        mod.run(ctx)
    except Exception as e:  # AnchorMissing or a crash on an unfamiliar shape: the canonical view may still decide
        err_a = e
    bad = [o for o in ctx.obligations if o.status not in (OK, INFO)]
    floors_short = [p for p, m in ctx.floors.items() if sum(1 for o in ctx.obligations if o.status in (OK, "violation") and o.rule.startswith(p)) < m]
    if err_a is None and not bad and not floors_short:
        return repo, ctx, mod
    if os.environ.get("SA_NO_CANON") == "1" or os.environ.get("SA_ONE_VIEW") == "1":
        if err_a is not None:
            raise err_a
        return repo, ctx, mod
    clear_cache()
    repo_b = Repo(repo_root, overrides=overrides, view="canonical")
    ctx_b = Ctx(prop, repo_b, tier)
    from . import common as _common

    _common.FLATTEN_RETURNS = os.environ.get("SA_FLATTEN_CANON_RETURNS", "1") == "1"  # exits of a merged conditional return are judged one by one in the canonical view
    try:
        mod.run(ctx_b)
    except Exception:
        _common.FLATTEN_RETURNS = False
        if err_a is not None:
            raise err_a
        return repo, ctx, mod
    _common.FLATTEN_RETURNS = False
    if err_a is not None:
        # the live view could not even be analysed; the canonical view stands on its own
        ctx_b.notes.append(f"live view not analysable ({type(err_a).__name__}: {err_a}); verdict taken from the canonical view")
        return repo_b, ctx_b, mod
    groups_a, groups_b = {}, {}
    for o in ctx.obligations:
        groups_a.setdefault(_group(o), []).append(o)
    for o in ctx_b.obligations:
        groups_b.setdefault(_group(o), []).append(o)
    merged = []
    used_b = 0
    seen = set()
    for o in ctx.obligations:
        g = _group(o)
        if g in seen:
            continue
        seen.add(g)
        ga = groups_a[g]
        gb = groups_b.get(g, [])
        a_ok = all(x.status in (OK, INFO) for x in ga)
        if a_ok or not gb:
            merged.extend(ga)
            continue
        # The two views are the same program, and every obligation is an independent necessary condition about one construct:
        # an obligation is discharged if either view discharges *that obligation* (same rule and construct key). A canonical
        # group that merely stopped early (fewer obligations, all of them fine) discharges nothing it did not look at.
        by_b = {}
        for x in gb:
            by_b.setdefault(x.key, []).append(x)
        keys_a = {x.key for x in ga}
        out, took = [], False
        for x in ga:
            if x.status in (OK, INFO):
                out.append(x)
            elif x.key in by_b and all(y.status in (OK, INFO) for y in by_b[x.key]) and any(y.status == OK for y in by_b[x.key]):
                for y in by_b[x.key]:
                    y.detail = (y.detail + " [discharged on the canonical view]").strip()
                out.extend(by_b[x.key])
                took = True
            elif x.status != "violation" and x.key in by_b and any(y.status == "violation" for y in by_b[x.key]):
                for y in by_b[x.key]:
                    if y.status == "violation":
                        y.detail = (y.detail + " [decided on the canonical view; the function as written was not recognised]").strip()
                out.extend(by_b[x.key])
                took = True
            else:
                out.append(x)
        # obligations only the canonical view reached inside this group (the live view gave up earlier on this function)
        live_gave_up = any(x.status not in (OK, INFO, "violation") for x in ga)
        if live_gave_up:
            for k, ys in by_b.items():
                if k not in keys_a:
                    for y in ys:
                        y.detail = (y.detail + " [canonical view only]").strip()
                    out.extend(ys)
                    took = True
            # the live "could not read this function" markers are answered if the canonical view read it completely
            if all(y.status in (OK, INFO, "violation") for y in gb):
                out = [x for x in out if x.status in (OK, INFO, "violation")]
        merged.extend(out)
        if took:
            used_b += 1
    # groups only the canonical view produced (the live view stopped before reaching them, e.g. a fold that left the fragment
    # emitted one "undecided" instead of the per-gate obligations): they are verdicts about an equivalent program and count
    for g, gb in groups_b.items():
        if g not in groups_a:
            for x in gb:
                x.detail = (x.detail + " [canonical view only]").strip()
            merged.extend(gb)
            used_b += 1
    ctx.obligations = merged
    ctx.functions_analysed |= ctx_b.functions_analysed
    ctx.extra["groups_discharged_on_canonical_view"] = used_b
    clear_cache()
    return repo, ctx, mod


def evaluate(prop: str, repo_root: str, overrides=None):
    """Run the rules of one property without writing evidence.

    Returns (status, obligations) with status in {"pass", "violation", "error"}; known
    findings are *not* filtered here (the self-test wants the raw verdicts)."""
    from .model import AnchorMissing, Repo
    from .report import Ctx, OK, UNDECIDED, VIOLATION

    from .cfg import clear_cache

    clear_cache()
    try:
        repo, ctx, mod = run_views(prop, repo_root, overrides, "quick")
        if repo.parse_errors:
            return "error", [], "parse: " + "; ".join(repo.parse_errors)
    except AnchorMissing as e:
        return "error", [], f"anchor missing: {e}"
    except Exception as e:  # noqa
        return "error", [], "crash: " + traceback.format_exc(limit=3)
    decided = [o for o in ctx.obligations if o.status in (OK, VIOLATION)]
    floor_err = []
    for prefix, minimum in ctx.floors.items():
        n = sum(1 for o in decided if o.rule.startswith(prefix))
        if n < minimum:
            floor_err.append(f"floor {prefix}: {n} < {minimum}")
    if any(o.status == VIOLATION for o in ctx.obligations):
        return "violation", ctx.obligations, ""
    if any(o.status == UNDECIDED for o in ctx.obligations) or floor_err:
        msg = "; ".join([f"{o.rule} {o.construct}: {o.detail}" for o in ctx.obligations if o.status == UNDECIDED] + floor_err)
        return "error", ctx.obligations, msg
    return "pass", ctx.obligations, ""


COMMON_ASSUMPTIONS = [
    "CPython's ast module parses the source as the interpreter would",
    "decided from source text only: no repo code is imported or executed, no solver is called",
    "the clauses listed as declined in MANIFEST.level_note / DESIGN.md are not decided by this check",
]

if __name__ == "__main__":
    sys.exit(main())
