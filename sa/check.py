"""Driver: ``python -m sa.check Cxx [--tier quick|thorough] [--repo /repo]``.

Exit 0 = every obligation discharged (known findings are printed as KNOWN-FINDING);
exit 1 = at least one unlisted violation (``VIOLATION property=<id> replay=<path>``);
exit 2 = ANALYSIS-ERROR (anchor vanished, parse failure, vacuity floor, unknown shape,
or a crash of the checker itself) — never a silent pass.
"""
from __future__ import annotations

import argparse
import importlib
import os
import sys
import time
import traceback


def main(argv=None) -> int:
    ap = argparse.ArgumentParser()
    ap.add_argument("prop")
    ap.add_argument("--tier", default=os.environ.get("VERIF_TIER", "quick"), choices=["quick", "thorough"])
    ap.add_argument("--repo", default=os.environ.get("SA_REPO", "/repo"))
    ap.add_argument("--only", default=None, help="only report obligations whose rule id starts with this")
    ap.add_argument("--replay", default=None, help="replay file written by an earlier run")
    ap.add_argument("--no-selftest", action="store_true")
    args = ap.parse_args(argv)

    started = time.time()
    prop = args.prop.upper()
    if args.replay:
        import json

        with open(args.replay) as f:
            rp = json.load(f)
        prop = rp["property"]
        args.only = rp["rule"].split(" ")[0]

    from .model import AnchorMissing, Repo
    from .report import Ctx, finish

    try:
        repo = Repo(args.repo)
        if repo.parse_errors:
            for e in repo.parse_errors:
                print(f"ANALYSIS-ERROR property={prop} cannot parse {e}")
            return 2
        mod = importlib.import_module(f"sa.props.{prop.lower()}")
        ctx = Ctx(prop, repo, args.tier)
        mod.run(ctx)
        if args.tier == "thorough" and hasattr(mod, "run_thorough"):
            mod.run_thorough(ctx)
        if args.only:
            ctx.obligations = [o for o in ctx.obligations if o.rule.startswith(args.only)]
            ctx.floors = {k: v for k, v in ctx.floors.items() if k.startswith(args.only)}
        code = finish(
            ctx,
            started,
            explanation=mod.EXPLANATION,
            rule_text=mod.RULE_TEXT,
            assumptions=list(getattr(mod, "ASSUMPTIONS", [])) + COMMON_ASSUMPTIONS,
        )
        if code == 0 and args.tier == "thorough" and not args.no_selftest and not args.only:
            from . import selftest

            st = selftest.run_for_property(prop, jobs=int(os.environ.get("SA_JOBS", "16")))
            if st != 0:
                print(f"ANALYSIS-ERROR property={prop} self-test of the checker failed (see above)")
                return 2
        return code
    except AnchorMissing as e:
        print(f"ANALYSIS-ERROR property={prop} anchor missing: {e}")
        return 2
    except Exception:  # the checker itself crashed: never report that as a violation
        traceback.print_exc()
        print(f"ANALYSIS-ERROR property={prop} checker crashed (traceback above)")
        return 2


def evaluate(prop: str, repo_root: str, overrides=None):
    """Run the rules of one property without writing evidence.

    Returns (status, obligations) with status in {"pass", "violation", "error"}; known
    findings are *not* filtered here (the self-test wants the raw verdicts)."""
    from .model import AnchorMissing, Repo
    from .report import Ctx, OK, UNDECIDED, VIOLATION

    from .cfg import clear_cache

    clear_cache()
    try:
        repo = Repo(repo_root, overrides=overrides)
        if repo.parse_errors:
            return "error", [], "parse: " + "; ".join(repo.parse_errors)
        mod = importlib.import_module(f"sa.props.{prop.lower()}")
        ctx = Ctx(prop, repo, "quick")
        mod.run(ctx)
    except AnchorMissing as e:
        return "error", [], f"anchor missing: {e}"
    except Exception as e:  # noqa
        return "error", [], "crash: " + traceback.format_exc(limit=3)
    decided = [o for o in ctx.obligations if o.status in (OK, VIOLATION)]
    floor_err = []
    for prefix, minimum in ctx.floors.items():
        n = sum(1 for o in decided if o.rule.startswith(prefix))
        if n < minimum:
            floor_err.append(f"floor {prefix}: {n} < {minimum}")
    if any(o.status == VIOLATION for o in ctx.obligations):
        return "violation", ctx.obligations, ""
    if any(o.status == UNDECIDED for o in ctx.obligations) or floor_err:
        msg = "; ".join([f"{o.rule} {o.construct}: {o.detail}" for o in ctx.obligations if o.status == UNDECIDED] + floor_err)
        return "error", ctx.obligations, msg
    return "pass", ctx.obligations, ""


COMMON_ASSUMPTIONS = [
    "CPython's ast module parses the source as the interpreter would",
    "decided from source text only: no repo code is imported or executed, no solver is called",
    "the clauses listed as declined in MANIFEST.level_note / DESIGN.md are not decided by this check",
]

if __name__ == "__main__":
    sys.exit(main())
