"""EFFECT: interprocedural alias and mutation analysis (flow-sensitive per function).

Abstract locations are *roots with a depth*, not full access paths:

    ("P", name, d, c)   the object bound to parameter ``name`` (d=0), something reached from
                        it by d attribute/element steps (d capped at 2), wrapped in c layers
                        of fresh containers/objects that merely *capture* it (c capped at 3)
    ("G", name, d, c)   same for a module global / a memoised (lru_cache) result
    ("F",)              an object created in this function
    ("U",)              unknown

``child`` peels one capture layer or goes one step deeper; ``capture`` wraps. A *mutation
event* on an expression's alias set records (root, depth) for every location that is not
fresh. Per-function summaries (which parameters are mutated at which depth, what the return
value aliases, what a constructor captures) are computed to a fixpoint over the whole
package, so a write through an alias three calls away is attributed to the public entry
point whose argument it edits.

Assumptions (printed in evidence): external callees not in MUTATORS/EXTERNAL_MUTATORS do not
mutate their arguments; an augmented assignment to a *name* of unknown static kind is a
rebinding.
"""
from __future__ import annotations

import ast
from dataclasses import dataclass, field
from typing import Dict, FrozenSet, Iterable, List, Optional, Sequence, Set, Tuple

from .astutil import FUNC_NODES, body_walk, const_str, decorator_names, dotted, norm, param_names, positional_params, short, walk_local
from .model import ClassInfo, FuncInfo, Repo

Loc = tuple
F: Loc = ("F",)
U: Loc = ("U",)

# in-place methods of builtin / numpy / scipy containers
MUTATORS = {
    "append", "extend", "insert", "remove", "pop", "clear", "sort", "reverse", "update", "setdefault",
    "popitem", "add", "discard", "difference_update", "intersection_update", "symmetric_difference_update",
    "appendleft", "popleft", "extendleft", "rotate", "fill", "resize", "itemset", "put", "setflags", "partition",
    "eliminate_zeros", "sum_duplicates", "sort_indices", "setdiag", "subtract", "__setitem__", "__delitem__",
    "move_to_end", "byteswap",
}
# external functions mutating an argument: name -> index of the mutated positional argument
EXTERNAL_MUTATORS = {
    "shuffle": 0, "put": 0, "fill_diagonal": 0, "copyto": 0, "place": 0, "putmask": 0, "heappush": 0,
    "heappop": 0, "heapify": 0, "insort": 0, "setattr": 0, "delattr": 0, "__setattr__": 0,
}
# external callables returning a brand-new object that does not share mutable state with its arguments
FRESH_CALLS = {
    "deepcopy", "sorted", "len", "sum", "min", "max", "abs", "int", "float", "complex", "str", "repr", "bool",
    "round", "range", "format", "isinstance", "hasattr", "hash", "ord", "chr", "any", "all", "divmod", "pow",
    "zeros", "ones", "eye", "identity", "arange", "linspace", "empty", "full", "kron", "dot", "matmul", "exp",
    "log", "log2", "sqrt", "cos", "sin", "isclose", "allclose", "array_equal", "concatenate", "outer",
    "Symbol", "sympify", "simplify", "dumps", "loads", "load", "dump", "copy", "fromiter", "argsort", "floor",
    "ceil", "real", "imag", "conj", "conjugate", "product", "Matrix", "diag", "N", "expand", "re", "im",
    "default_rng", "choice", "count", "index", "join", "split", "strip", "replace", "startswith", "endswith",
    "encode", "decode", "upper", "lower", "zfill", "bit_length", "tolist", "astype", "flatten", "item", "toarray",
    "tocsc", "tocoo", "tocsr", "nonzero", "getH", "adjoint", "transpose", "subs", "evalf", "is_integer",
    "most_common", "total", "fromkeys", "match", "search", "group", "groups", "isdigit", "print", "warn", "open",
}
# external callables whose result may alias (a view of / an iterator over) their first argument
VIEW_CALLS = {"asarray", "asanyarray", "reshape", "ravel", "squeeze", "iter", "reversed", "enumerate", "zip", "map",
              "filter", "islice", "chain", "cast", "getattr", "next", "groupby", "reduce", "atleast_1d", "from_iterable"}
# constructors of new containers that capture the elements of their argument
CONTAINER_CTORS = {"list", "tuple", "set", "frozenset", "dict", "Counter", "OrderedDict", "deque", "array", "defaultdict"}
# methods returning something reached from the receiver
CHILD_METHODS = {"get", "values", "items", "keys", "pop", "popitem", "setdefault", "__getitem__", "row", "col", "elements", "most_common"}

INPLACE_KINDS = {"list", "dict", "set", "ndarray", "counter", "deque"}
IMMUT_KINDS = {"num", "str", "tuple", "bool", "none", "frozenset", "bytes"}

VALUE_CLASSES = {
    "Circuit", "GateOperation", "MatrixFactoryGate", "ControlledGate", "Dagger", "Exponential", "Power",
    "CustomGateDefinition", "CustomGateMatrixFactory", "MultiPhaseOperation", "ResetOperation", "PauliTerm",
    "PauliSum", "Measurements", "MeasurementOutcomeDistribution", "Wavefunction", "EstimationTask",
}
VALUE_ALIASES = {"PauliRepresentation", "Gate", "Operation", "GateRef", "ParameterizedVector"}


def child(loc: Loc) -> Loc:
    if loc[0] in ("F", "U"):
        return loc
    kind, name, d, c = loc
    if c > 0:
        return (kind, name, d, c - 1)
    return (kind, name, min(d + 1, 2), 0)


def capture(loc: Loc) -> Optional[Loc]:
    if loc[0] == "F":
        return None  # a fresh container of fresh things is just fresh
    if loc[0] == "U":
        return U
    kind, name, d, c = loc
    return (kind, name, d, min(c + 1, 3))


def children(locs: Iterable[Loc]) -> Set[Loc]:
    return {child(l) for l in locs}


def captures(locs: Iterable[Loc]) -> Set[Loc]:
    out = {F}
    for l in locs:
        c = capture(l)
        if c is not None:
            out.add(c)
    return out


@dataclass
class Site:
    func: str  # key of the function containing the direct write
    where: str  # file:line
    text: str  # normalised statement
    via: Tuple[str, ...] = ()  # call chain from the summarised function to ``func``
    memo: Optional[str] = None  # attribute name when this is a hasattr-guarded memo write

    def key(self) -> str:
        return f"{self.func}:{self.text}"


@dataclass
class Summary:
    mutates: Dict[Tuple[str, int], List[Site]] = field(default_factory=dict)  # (param, depth) -> sites
    globals_mutated: Dict[str, List[Site]] = field(default_factory=dict)
    returns: Set[Loc] = field(default_factory=set)
    ctor_captures: Set[Loc] = field(default_factory=set)  # what a constructed object captures (param space)
    unknown_kind_augassign: List[str] = field(default_factory=list)

    def signature(self):
        return (
            frozenset((k, frozenset(s.key() for s in v)) for k, v in self.mutates.items()),
            frozenset(self.globals_mutated),
            frozenset(self.returns),
            frozenset(self.ctor_captures),
        )


class Effects:
    def __init__(self, repo: Repo, memo_attrs: Iterable[str] = ()):
        self.repo = repo
        self.memo_attrs = set(memo_attrs)
        self.summaries: Dict[str, Summary] = {}
        self.externals_seen: Set[str] = set()
        self.attr_kinds: Dict[str, Dict[str, str]] = {}
        self.mutation_sites: List[Site] = []
        self._funcs = [f for f in repo.all_functions()]
        self._compute_attr_kinds()
        self._fixpoint()

    # ----------------------------------------------------------------- kinds
    def ann_kind(self, mod, ann: Optional[ast.AST]) -> str:
        if ann is None:
            return "unknown"
        if isinstance(ann, ast.Constant) and isinstance(ann.value, str):
            try:
                ann = ast.parse(ann.value, mode="eval").body
            except SyntaxError:
                return "unknown"
        if isinstance(ann, ast.Subscript):
            head = (dotted(ann.value) or "").split(".")[-1]
            if head == "Optional":
                return self.ann_kind(mod, ann.slice)
            if head in ("List", "Sequence", "MutableSequence", "list"):
                return "list"
            if head in ("Dict", "Mapping", "MutableMapping", "dict", "DefaultDict", "OrderedDict"):
                return "dict"
            if head in ("Set", "set", "MutableSet"):
                return "set"
            if head in ("Tuple", "tuple", "FrozenSet"):
                return "tuple"
            if head == "Union":
                members = ann.slice.elts if isinstance(ann.slice, ast.Tuple) else [ann.slice]
                ks = [self.ann_kind(mod, m) for m in members]
                for k in ks:  # any mutable member makes in-place semantics possible
                    if k in INPLACE_KINDS:
                        return k
                if ks and all(k == ks[0] for k in ks):
                    return ks[0]
                return "unknown"
            if head in ("Iterable", "Collection", "Iterator", "Callable"):
                return "unknown"
            return "unknown"
        name = dotted(ann) or ""
        base = name.split(".")[-1]
        if base in ("int", "float", "complex", "Number", "Complex", "Real"):
            return "num"
        if base in ("str", "AnyPath", "bytes"):
            return "str"
        if base == "bool":
            return "bool"
        if base in ("ndarray", "StateVector"):
            return "ndarray"
        if base in ("dict", "Dict"):
            return "dict"
        if base in ("list", "List"):
            return "list"
        if base in ("Counter",):
            return "counter"
        ci = self.repo.annotation_class(mod, ann)
        if ci is not None:
            return "obj:" + ci.name
        return "unknown"

    def _compute_attr_kinds(self):
        for ci in self.repo.all_classes():
            kinds: Dict[str, str] = {}
            for name, ann, _default in ci.fields:
                kinds[name] = self.ann_kind(ci.module, ann)
            for m in ci.methods.values():
                pk = {a.arg: self.ann_kind(ci.module, a.annotation) for a in m.node.args.args + m.node.args.kwonlyargs}
                for n in body_walk(m.node):
                    tgt = None
                    val = None
                    if isinstance(n, ast.Assign) and len(n.targets) == 1:
                        tgt, val = n.targets[0], n.value
                    elif isinstance(n, ast.AnnAssign):
                        tgt, val = n.target, n.value
                        if isinstance(tgt, ast.Attribute) and isinstance(tgt.value, ast.Name) and tgt.value.id == "self":
                            k = self.ann_kind(ci.module, n.annotation)
                            if k != "unknown":
                                kinds.setdefault(tgt.attr, k)
                    if isinstance(tgt, ast.Attribute) and isinstance(tgt.value, ast.Name) and tgt.value.id == "self" and val is not None:
                        k = self._expr_kind_simple(val, pk)
                        if k != "unknown" and kinds.get(tgt.attr, "unknown") in ("unknown", "none"):
                            kinds[tgt.attr] = k
            self.attr_kinds[ci.key] = kinds

    def _expr_kind_simple(self, e: ast.AST, names: Dict[str, str]) -> str:
        if isinstance(e, (ast.List, ast.ListComp)):
            return "list"
        if isinstance(e, (ast.Dict, ast.DictComp)):
            return "dict"
        if isinstance(e, (ast.Set, ast.SetComp)):
            return "set"
        if isinstance(e, ast.Tuple):
            return "tuple"
        if isinstance(e, ast.JoinedStr):
            return "str"
        if isinstance(e, ast.Constant):
            v = e.value
            if v is None:
                return "none"
            if isinstance(v, bool):
                return "bool"
            if isinstance(v, (int, float, complex)):
                return "num"
            if isinstance(v, str):
                return "str"
            return "unknown"
        if isinstance(e, ast.Name):
            return names.get(e.id, "unknown")
        if isinstance(e, ast.IfExp):
            a, b = self._expr_kind_simple(e.body, names), self._expr_kind_simple(e.orelse, names)
            if a == b:
                return a
            if a == "none":
                return b
            if b == "none":
                return a
            return "unknown"
        if isinstance(e, ast.Call):
            base = (dotted(e.func) or "").split(".")[-1]
            if base in ("list", "sorted"):
                return "list"
            if base in ("dict", "OrderedDict", "defaultdict"):
                return "dict"
            if base in ("set",):
                return "set"
            if base in ("tuple",):
                return "tuple"
            if base in ("Counter",):
                return "counter"
            if base in ("zeros", "ones", "array", "asarray", "arange", "empty", "full", "concatenate", "fromiter", "eye"):
                return "ndarray"
            if base in ("len", "int", "float", "complex", "sum", "abs", "round", "max", "min", "log2", "sqrt", "ceil", "floor"):
                return "num"
            if base in ("str", "format", "join", "repr"):
                return "str"
        if isinstance(e, ast.BinOp):
            a = self._expr_kind_simple(e.left, names)
            b = self._expr_kind_simple(e.right, names)
            if a == b and a in ("num", "list", "str", "tuple"):
                return a
            if "num" in (a, b) and (a in ("list", "tuple", "str") or b in ("list", "tuple", "str")):
                return a if a != "num" else b
            if a == "ndarray" or b == "ndarray":
                return "ndarray"
        if isinstance(e, ast.Compare) or isinstance(e, ast.BoolOp) and False:
            return "bool"
        return "unknown"

    def class_defines(self, class_name: str, dunder: str) -> Optional[bool]:
        for ci in self.repo.all_classes():
            if ci.name == class_name:
                return self.repo.find_method(ci, dunder) is not None
        return None

    # -------------------------------------------------------------- fixpoint
    def _fixpoint(self):
        for f in self._funcs:
            self.summaries[f.key] = Summary()
        for _round in range(12):
            changed = False
            for f in self._funcs:
                new = _FuncAnalysis(self, f).run()
                if new.signature() != self.summaries[f.key].signature():
                    changed = True
                self.summaries[f.key] = new
            if not changed:
                break
        self.rounds = _round + 1
        # direct mutation sites, for evidence
        seen = set()
        for f in self._funcs:
            s = self.summaries[f.key]
            for sites in list(s.mutates.values()) + list(s.globals_mutated.values()):
                for site in sites:
                    if not site.via and site.key() not in seen:
                        seen.add(site.key())
                        self.mutation_sites.append(site)

    def summary(self, fi: FuncInfo) -> Summary:
        return self.summaries.get(fi.key, Summary())


class _FuncAnalysis:
    def __init__(self, eff: Effects, fi: FuncInfo):
        self.eff = eff
        self.repo = eff.repo
        self.fi = fi
        self.node = fi.node
        self.out = Summary()
        self.params = param_names(self.node)
        self.is_lru = any(d.split(".")[-1] in ("lru_cache", "cache") for d in fi.decorators)

    # ------------------------------------------------------------------ run
    def run(self) -> Summary:
        env: Dict[str, Set[Loc]] = {}
        kinds: Dict[str, str] = {}
        types: Dict[str, ClassInfo] = {}
        a = self.node.args
        allp = list(a.posonlyargs) + list(a.args) + list(a.kwonlyargs) + ([a.vararg] if a.vararg else []) + ([a.kwarg] if a.kwarg else [])
        for i, p in enumerate(allp):
            env[p.arg] = {("P", p.arg, 0, 0)}
            kinds[p.arg] = self.eff.ann_kind(self.fi.module, p.annotation)
            ci = self.repo.annotation_class(self.fi.module, p.annotation)
            if ci is not None:
                types[p.arg] = ci
        if self.fi.cls is not None and self.params and not self.fi.is_static:
            first = self.params[0]
            if first == "self":
                kinds[first] = "obj:" + self.fi.cls.name
                types[first] = self.fi.cls
            elif first == "cls":
                env[first] = set()
        if a.vararg:
            env[a.vararg.arg] = {("P", a.vararg.arg, 0, 0)}
            kinds[a.vararg.arg] = "tuple"
        self.types = types
        self.kinds = kinds
        self._block(self.node.body, env)
        return self.out

    # ------------------------------------------------------------ statements
    def _block(self, stmts: Sequence[ast.stmt], env: Dict[str, Set[Loc]]) -> Dict[str, Set[Loc]]:
        for s in stmts:
            env = self._stmt(s, env)
        return env

    @staticmethod
    def _merge(a: Dict[str, Set[Loc]], b: Dict[str, Set[Loc]]) -> Dict[str, Set[Loc]]:
        out = {k: set(v) for k, v in a.items()}
        for k, v in b.items():
            out.setdefault(k, set()).update(v)
        return out

    def _stmt(self, s: ast.stmt, env: Dict[str, Set[Loc]]) -> Dict[str, Set[Loc]]:
        if isinstance(s, FUNC_NODES + (ast.ClassDef,)):
            return env
        if isinstance(s, ast.If):
            self._effects(s.test, env, s)
            e1 = self._block(s.body, {k: set(v) for k, v in env.items()})
            e2 = self._block(s.orelse, {k: set(v) for k, v in env.items()})
            return self._merge(e1, e2)
        if isinstance(s, (ast.For, ast.AsyncFor)):
            self._effects(s.iter, env, s)
            it = self._alias(s.iter, env)
            cur = {k: set(v) for k, v in env.items()}
            for _ in range(3):
                self._bind(s.target, children(it), cur, kind="unknown")
                nxt = self._block(s.body, {k: set(v) for k, v in cur.items()})
                merged = self._merge(cur, nxt)
                if merged == cur:
                    break
                cur = merged
            return self._block(s.orelse, cur)
        if isinstance(s, ast.While):
            cur = {k: set(v) for k, v in env.items()}
            for _ in range(3):
                self._effects(s.test, cur, s)
                nxt = self._block(s.body, {k: set(v) for k, v in cur.items()})
                merged = self._merge(cur, nxt)
                if merged == cur:
                    break
                cur = merged
            return self._block(s.orelse, cur)
        if isinstance(s, (ast.With, ast.AsyncWith)):
            for item in s.items:
                self._effects(item.context_expr, env, s)
                if item.optional_vars is not None:
                    self._bind(item.optional_vars, self._alias(item.context_expr, env) | {F}, env, kind="unknown")
            return self._block(s.body, env)
        if isinstance(s, ast.Try):
            e_body = self._block(s.body, {k: set(v) for k, v in env.items()})
            merged = self._merge(env, e_body)
            outs = [self._block(s.orelse, {k: set(v) for k, v in e_body.items()})]
            for h in s.handlers:
                he = {k: set(v) for k, v in merged.items()}
                if h.name:
                    he[h.name] = {F}
                outs.append(self._block(h.body, he))
            res = outs[0]
            for o in outs[1:]:
                res = self._merge(res, o)
            return self._block(s.finalbody, res)
        if isinstance(s, ast.Assign):
            self._effects(s.value, env, s)
            val = self._alias(s.value, env)
            kind = self._kind(s.value, env)
            typ = self._type_of(s.value)
            for t in s.targets:
                self._assign_target(t, s.value, val, kind, typ, env, s)
            return env
        if isinstance(s, ast.AnnAssign):
            if s.value is not None:
                self._effects(s.value, env, s)
                val = self._alias(s.value, env)
                kind = self._kind(s.value, env)
                if kind == "unknown":
                    kind = self.eff.ann_kind(self.fi.module, s.annotation)
                self._assign_target(s.target, s.value, val, kind, self._type_of(s.value), env, s)
            elif isinstance(s.target, ast.Name):
                self.kinds[s.target.id] = self.eff.ann_kind(self.fi.module, s.annotation)
            return env
        if isinstance(s, ast.AugAssign):
            self._effects(s.value, env, s)
            t = s.target
            if isinstance(t, ast.Name):
                kind = self.kinds.get(t.id, "unknown")
                inplace = None
                if kind in INPLACE_KINDS:
                    inplace = True
                elif kind in IMMUT_KINDS:
                    inplace = False
                elif kind.startswith("obj:"):
                    d = self.eff.class_defines(kind[4:], _inplace_dunder(s.op))
                    inplace = bool(d)
                    if not inplace:
                        # evaluates the binary dunder: result replaces the binding
                        res = self._binop_result(kind[4:], s.op, self._alias(t, env), self._alias(s.value, env), env, s)
                        env[t.id] = res
                        return env
                else:
                    inplace = False
                    if any(l[0] in ("P", "G") for l in env.get(t.id, ())):
                        self.out.unknown_kind_augassign.append(f"{self.fi.key}: {short(s)}")
                if inplace:
                    self._mutate(env.get(t.id, set()), s)
                    env[t.id] = set(env.get(t.id, set())) | captures(children(self._alias(s.value, env)))
                else:
                    env[t.id] = {F}
                return env
            # attribute / subscript target: the holder is edited
            self._effects(t, env, s, skip_root=True)
            holder = t.value if isinstance(t, (ast.Attribute, ast.Subscript)) else None
            if holder is not None:
                self._mutate(self._alias(holder, env), s, attr=t.attr if isinstance(t, ast.Attribute) else None, holder=holder)
            return env
        if isinstance(s, ast.Delete):
            for t in s.targets:
                if isinstance(t, (ast.Attribute, ast.Subscript)):
                    self._mutate(self._alias(t.value, env), s)
                elif isinstance(t, ast.Name):
                    env.pop(t.id, None)
            return env
        if isinstance(s, ast.Return):
            if s.value is not None:
                self._effects(s.value, env, s)
                self.out.returns |= self._alias(s.value, env)
            return env
        if isinstance(s, ast.Expr):
            self._effects(s.value, env, s)
            if isinstance(s.value, (ast.Yield, ast.YieldFrom)) and s.value.value is not None:
                self.out.returns |= captures(self._alias(s.value.value, env))
            return env
        if isinstance(s, (ast.Raise, ast.Assert)):
            for sub in ast.iter_child_nodes(s):
                if isinstance(sub, ast.expr):
                    self._effects(sub, env, s)
            return env
        return env

    def _assign_target(self, t, value_node, val, kind, typ, env, stmt):
        if isinstance(t, ast.Name):
            env[t.id] = set(val)
            self.kinds[t.id] = kind
            if typ is not None:
                self.types[t.id] = typ
            else:
                self.types.pop(t.id, None)
        elif isinstance(t, (ast.Tuple, ast.List)):
            if isinstance(value_node, (ast.Tuple, ast.List)) and len(value_node.elts) == len(t.elts) and not any(isinstance(e, ast.Starred) for e in list(t.elts) + list(value_node.elts)):
                for te, ve in zip(t.elts, value_node.elts):
                    self._assign_target(te, ve, self._alias(ve, env), self._kind(ve, env), self._type_of(ve), env, stmt)
            else:
                for te in t.elts:
                    tt = te.value if isinstance(te, ast.Starred) else te
                    self._assign_target(tt, None, children(val), "unknown", None, env, stmt)
        elif isinstance(t, ast.Attribute):
            self._effects(t.value, env, stmt)
            self._mutate(self._alias(t.value, env), stmt, attr=t.attr, holder=t.value, stored=val)
            self._note_store(t.value, val, env)
        elif isinstance(t, ast.Subscript):
            self._effects(t.value, env, stmt)
            self._effects(t.slice, env, stmt)
            self._mutate(self._alias(t.value, env), stmt)
            self._note_store(t.value, val, env)
        elif isinstance(t, ast.Starred):
            self._assign_target(t.value, None, val, "list", None, env, stmt)

    def _bind(self, target, locs: Set[Loc], env, kind="unknown"):
        if isinstance(target, ast.Name):
            env[target.id] = set(locs)
            self.kinds[target.id] = kind
            self.types.pop(target.id, None)
        elif isinstance(target, (ast.Tuple, ast.List)):
            for e in target.elts:
                self._bind(e.value if isinstance(e, ast.Starred) else e, children(locs), env, kind)

    # --------------------------------------------------------------- mutation
    def _where(self, stmt) -> str:
        return f"{self.fi.module.relpath}:{getattr(stmt, 'lineno', self.node.lineno)}"

    def _is_memo_write(self, stmt, attr: Optional[str], holder) -> bool:
        """``self._x = ...`` under ``if not hasattr(self, "_x")`` for an allow-listed memo attribute."""
        if attr is None or attr not in self.eff.memo_attrs:
            return False
        if not (isinstance(holder, ast.Name) and holder.id == "self"):
            return False
        for n in body_walk(self.node):
            if isinstance(n, ast.If) and any(x is stmt for b in n.body for x in ast.walk(b)):
                t = n.test
                if isinstance(t, ast.UnaryOp) and isinstance(t.op, ast.Not) and isinstance(t.operand, ast.Call) and dotted(t.operand.func) == "hasattr" and len(t.operand.args) == 2 and norm(t.operand.args[0]) == "self" and const_str(t.operand.args[1]) == attr:
                    return True
        return False

    def _note_store(self, holder: Optional[ast.AST], stored: Iterable[Loc], env) -> None:
        """``holder[...] = v`` / ``holder.f = v`` / ``holder.append(v)``: the local variable at
        the root of ``holder`` now (transitively) contains ``v``."""
        steps = 0
        cur = holder
        while isinstance(cur, (ast.Attribute, ast.Subscript)):
            cur = cur.value
            steps += 1
        if not isinstance(cur, ast.Name) or cur.id not in env:
            return
        add: Set[Loc] = set()
        for l in stored:
            c: Optional[Loc] = l
            for _ in range(steps + 1):
                c = capture(c) if c is not None else None
                if c is None:
                    break
            if c is not None and c != F:
                add.add(c)
        if add:
            env[cur.id] = set(env[cur.id]) | add

    def _mutate(self, locs: Iterable[Loc], stmt, attr: Optional[str] = None, holder=None, stored=None, via: Tuple[str, ...] = (), origin: Optional[Site] = None):
        memo = attr if self._is_memo_write(stmt, attr, holder) else None
        for l in locs:
            if l[0] not in ("P", "G") or l[3] > 0:
                continue
            site = origin if origin is not None else Site(self.fi.key, self._where(stmt), short(stmt, 140), (), memo)
            if origin is not None:
                site = Site(origin.func, origin.where, origin.text, via, origin.memo)
            if l[0] == "P":
                self.out.mutates.setdefault((l[1], l[2]), [])
                if all(x.key() != site.key() for x in self.out.mutates[(l[1], l[2])]):
                    self.out.mutates[(l[1], l[2])].append(site)
            else:
                self.out.globals_mutated.setdefault(l[1], [])
                if all(x.key() != site.key() for x in self.out.globals_mutated[l[1]]):
                    self.out.globals_mutated[l[1]].append(site)
        # constructor capture bookkeeping: ``self.f = <alias of a parameter>``
        if stored is not None and isinstance(holder, ast.Name) and holder.id == "self" and self.fi.name in ("__init__", "__post_init__"):
            for l in stored:
                c = capture(l)
                if c is not None and c != F:
                    self.out.ctor_captures.add(c)

    # ---------------------------------------------------------------- effects
    def _effects(self, expr: ast.AST, env, stmt, skip_root: bool = False):
        """Apply the side effects of every call / property read inside ``expr``; also binds
        comprehension targets so that later alias queries see them."""
        for n in walk_local(expr):
            if isinstance(n, (ast.ListComp, ast.SetComp, ast.GeneratorExp, ast.DictComp)):
                for g in n.generators:
                    self._bind(g.target, children(self._alias(g.iter, env)), env)
            elif isinstance(n, ast.NamedExpr) and isinstance(n.target, ast.Name):
                env[n.target.id] = self._alias(n.value, env)
                self.kinds[n.target.id] = self._kind(n.value, env)
            elif isinstance(n, ast.Lambda):
                for p in n.args.args:
                    env.setdefault(p.arg, set())
        for n in walk_local(expr):
            if isinstance(n, ast.Call):
                self._call_effects(n, env, stmt)
            elif isinstance(n, ast.Attribute) and isinstance(n.ctx, ast.Load):
                self._property_effects(n, env, stmt)

    def _property_effects(self, n: ast.Attribute, env, stmt):
        targets = self._property_targets(n)
        if not targets:
            return
        recv = self._alias(n.value, env)
        for t in targets:
            summ = self.eff.summary(t)
            for (p, d), sites in summ.mutates.items():
                if p != "self":
                    continue
                for site in sites:
                    self._mutate(_deeper(recv, d), stmt, via=(t.key,) + site.via, origin=site)

    def _property_targets(self, n: ast.Attribute) -> List[FuncInfo]:
        out = []
        base_t = None
        if isinstance(n.value, ast.Name) and n.value.id in self.types:
            base_t = self.types[n.value.id]
        if base_t is not None:
            cands = self.repo.dispatch_targets(base_t, n.attr)
        else:
            cands = self.repo.methods_named(n.attr)
        for c in cands:
            if c.is_property:
                out.append(c)
        return out

    def _resolve(self, call: ast.Call) -> Tuple[List[FuncInfo], Optional[str]]:
        f = call.func
        # type(x)(...) / cls(...)
        if isinstance(f, ast.Call) and isinstance(f.func, ast.Name) and f.func.id == "type" and len(f.args) == 1:
            a = f.args[0]
            ci = None
            if isinstance(a, ast.Name):
                ci = self.types.get(a.id)
            if ci is None and isinstance(a, ast.Name) and a.id == "self":
                ci = self.fi.cls
            if ci is not None:
                return self._ctor_targets(ci), None
            return [], "type(...)"
        if isinstance(f, ast.Name) and f.id == "cls" and self.fi.cls is not None:
            return self._ctor_targets(self.fi.cls), None
        return self.repo.resolve_call(self.fi, call, self.types)

    def _ctor_targets(self, ci: ClassInfo) -> List[FuncInfo]:
        out = []
        for m in ("__init__", "__post_init__"):
            fm = self.repo.find_method(ci, m)
            if fm is not None:
                out.append(fm)
        return out

    def _ctor_class(self, call: ast.Call) -> Optional[ClassInfo]:
        f = call.func
        if isinstance(f, ast.Call) and isinstance(f.func, ast.Name) and f.func.id == "type" and len(f.args) == 1 and isinstance(f.args[0], ast.Name):
            a = f.args[0].id
            if a in self.types:
                return self.types[a]
            if a == "self":
                return self.fi.cls
            return None
        if isinstance(f, ast.Name) and f.id == "cls":
            return self.fi.cls
        if isinstance(f, (ast.Name, ast.Attribute)):
            r = self.repo.resolve_dotted(self.fi.module, f)
            if r is not None and r[0] == "class":
                return r[1]
        return None

    def _arg_map(self, call: ast.Call, target: FuncInfo, env, bound_receiver: Optional[Set[Loc]]) -> Dict[str, Set[Loc]]:
        """Map callee parameter names to alias sets of the actual arguments."""
        ps = positional_params(target.node)
        amap: Dict[str, Set[Loc]] = {}
        offset = 0
        if bound_receiver is not None and ps and not target.is_static:
            amap[ps[0]] = set(bound_receiver) if not target.is_classmethod else set()
            offset = 1
        vararg = target.node.args.vararg.arg if target.node.args.vararg else None
        i = 0
        for a in call.args:
            if isinstance(a, ast.Starred):
                locs = children(self._alias(a.value, env))
                for p in ps[offset + i :]:
                    amap.setdefault(p, set()).update(locs)
                if vararg:
                    amap.setdefault(vararg, set()).update(captures(locs))
                continue
            idx = offset + i
            if idx < len(ps):
                amap.setdefault(ps[idx], set()).update(self._alias(a, env))
            elif vararg:
                amap.setdefault(vararg, set()).update(captures(self._alias(a, env)))
            i += 1
        for kw in call.keywords:
            if kw.arg is None:
                continue
            amap.setdefault(kw.arg, set()).update(self._alias(kw.value, env))
        return amap

    def _receiver(self, call: ast.Call, env) -> Optional[Set[Loc]]:
        f = call.func
        if isinstance(f, ast.Attribute):
            r = self.repo.resolve_dotted(self.fi.module, f.value) if isinstance(f.value, (ast.Name, ast.Attribute)) else None
            if r is not None and r[0] in ("module", "external", "class"):
                return None
            if isinstance(f.value, ast.Call) and isinstance(f.value.func, ast.Name) and f.value.func.id == "super":
                return set(env.get("self", set()))
            return self._alias(f.value, env)
        return None

    def _call_effects(self, call: ast.Call, env, stmt):
        f = call.func
        name = dotted(f)
        base = (name or "").split(".")[-1] if name else (f.attr if isinstance(f, ast.Attribute) else "")
        targets, ext = self._resolve(call)
        ci = self._ctor_class(call)
        recv = self._receiver(call, env)
        if ci is not None:
            recv_for_ctor: Optional[Set[Loc]] = {F}
            for t in self._ctor_targets(ci):
                amap = self._arg_map(call, t, env, recv_for_ctor)
                self._apply_summary(t, amap, stmt)
            return
        if targets and not (ext or "").startswith("cha:"):
            for t in targets:
                bound = recv if (t.cls is not None and isinstance(f, ast.Attribute)) else None
                amap = self._arg_map(call, t, env, bound)
                self._apply_summary(t, amap, stmt)
            return
        # builtin container mutators on the receiver
        if isinstance(f, ast.Attribute) and f.attr in MUTATORS and recv is not None:
            rk = self._kind(f.value, env)
            if not rk.startswith("obj:") or rk[4:] not in {c.name for c in self.repo.all_classes()}:
                if rk not in IMMUT_KINDS:
                    self._mutate(recv, stmt)
                    if f.attr in ("append", "add", "appendleft"):
                        for a in call.args:
                            self._note_store(f.value, self._alias(a, env), env)
                    elif f.attr in ("insert", "setdefault", "__setitem__"):
                        # (index / key, value): only the value becomes an element of the container
                        for a in call.args[1:]:
                            self._note_store(f.value, self._alias(a, env), env)
                    elif f.attr in ("extend", "update", "extendleft"):
                        for a in call.args:
                            self._note_store(f.value, children(self._alias(a, env)), env)
                    return
        if targets and (ext or "").startswith("cha:"):
            # untyped receiver: union over repo methods of that name (class-hierarchy analysis)
            rk = self._kind(f.value, env) if isinstance(f, ast.Attribute) else "unknown"
            if rk in INPLACE_KINDS or rk in IMMUT_KINDS:
                return
            for t in targets:
                if rk.startswith("obj:") and t.cls is not None and not self._class_compatible(rk[4:], t.cls):
                    continue
                amap = self._arg_map(call, t, env, recv)
                self._apply_summary(t, amap, stmt)
            return
        # external function mutating an argument
        if base in EXTERNAL_MUTATORS and call.args:
            idx = EXTERNAL_MUTATORS[base]
            if base in ("setattr", "delattr", "__setattr__") and name in ("object.__setattr__",):
                if self.fi.name in ("__post_init__", "__init__"):
                    return
            if idx < len(call.args):
                self._mutate(self._alias(call.args[idx], env), stmt)
            return
        for kw in call.keywords:
            if kw.arg == "out":
                self._mutate(self._alias(kw.value, env), stmt)
        if ext and any(self._alias(a, env) - {F} for a in call.args if not isinstance(a, ast.Starred)):
            self.eff.externals_seen.add(ext)

    def _class_compatible(self, name: str, ci: ClassInfo) -> bool:
        for c in self.repo.all_classes():
            if c.name == name:
                if c.key == ci.key or self.repo.is_subclass(c, ci.key) or self.repo.is_subclass(ci, c.key):
                    return True
        return False

    def _apply_summary(self, target: FuncInfo, amap: Dict[str, Set[Loc]], stmt):
        summ = self.eff.summary(target)
        for (p, d), sites in summ.mutates.items():
            locs = _deeper(amap.get(p, set()), d)
            for site in sites:
                if site.memo:
                    continue
                self._mutate(locs, stmt, via=(target.key,) + site.via, origin=site)
        for g, sites in summ.globals_mutated.items():
            for site in sites:
                self._mutate({("G", g, 0, 0)}, stmt, via=(target.key,) + site.via, origin=site)

    # ------------------------------------------------------------------ alias
    def _alias(self, e: Optional[ast.AST], env) -> Set[Loc]:
        if e is None:
            return set()
        if isinstance(e, ast.Name):
            if e.id in env:
                return set(env[e.id])
            r = self.repo.resolve_name(self.fi.module, e.id)
            if r is not None and r[0] == "value":
                return {("G", f"{r[2].name}.{e.id}", 0, 0)}
            return set()
        if isinstance(e, ast.Constant):
            return set()
        if isinstance(e, ast.Attribute):
            # module attribute (global) or property / field of an object
            r = self.repo.resolve_dotted(self.fi.module, e) if isinstance(e.value, (ast.Name, ast.Attribute)) else None
            if r is not None:
                if r[0] == "value":
                    return {("G", f"{r[2].name}.{e.attr}", 0, 0)}
                if r[0] in ("func", "class", "module", "external"):
                    return set()
            base = self._alias(e.value, env)
            props = self._property_targets(e)
            out: Set[Loc] = set()
            if props:
                for p in props:
                    out |= self._map_returns(self.eff.summary(p).returns, {"self": base})
                typed = isinstance(e.value, ast.Name) and e.value.id in self.types
                if typed and out:
                    return out
                # untyped receiver: the attribute may just as well be a plain field of another class
                return out | children(base)
            return children(base)
        if isinstance(e, ast.Subscript):
            return children(self._alias(e.value, env))
        if isinstance(e, ast.Starred):
            return self._alias(e.value, env)
        if isinstance(e, (ast.List, ast.Tuple, ast.Set)):
            acc: Set[Loc] = set()
            for x in e.elts:
                if isinstance(x, ast.Starred):
                    acc |= children(self._alias(x.value, env))
                else:
                    acc |= self._alias(x, env)
            return captures(acc)
        if isinstance(e, ast.Dict):
            acc = set()
            for v in e.values:
                acc |= self._alias(v, env)
            for k in e.keys:
                if k is None:
                    continue
            return captures(acc)
        if isinstance(e, (ast.ListComp, ast.SetComp, ast.GeneratorExp)):
            return captures(self._alias(e.elt, env))
        if isinstance(e, ast.DictComp):
            return captures(self._alias(e.value, env))
        if isinstance(e, ast.IfExp):
            return self._alias(e.body, env) | self._alias(e.orelse, env)
        if isinstance(e, ast.BoolOp):
            acc = set()
            for v in e.values:
                acc |= self._alias(v, env)
            return acc
        if isinstance(e, ast.NamedExpr):
            return self._alias(e.value, env)
        if isinstance(e, ast.BinOp):
            lk = self._kind(e.left, env)
            if lk.startswith("obj:"):
                return self._binop_result(lk[4:], e.op, self._alias(e.left, env), self._alias(e.right, env), env, None)
            rk = self._kind(e.right, env)
            if lk in IMMUT_KINDS and rk in IMMUT_KINDS and "tuple" not in (lk, rk):
                return set()
            return captures(children(self._alias(e.left, env)) | children(self._alias(e.right, env)))
        if isinstance(e, (ast.UnaryOp, ast.Compare, ast.JoinedStr, ast.FormattedValue)):
            return set()
        if isinstance(e, ast.Await):
            return self._alias(e.value, env)
        if isinstance(e, (ast.Yield, ast.YieldFrom)):
            return {U}
        if isinstance(e, ast.Lambda):
            return {F}
        if isinstance(e, ast.Call):
            return self._call_alias(e, env)
        return {U}

    def _binop_result(self, cls_name: str, op, left: Set[Loc], right: Set[Loc], env, stmt) -> Set[Loc]:
        dunder = _binop_dunder(op)
        for ci in self.repo.all_classes():
            if ci.name == cls_name:
                m = self.repo.find_method(ci, dunder)
                if m is not None:
                    ps = positional_params(m.node)
                    amap = {ps[0]: left}
                    if len(ps) > 1:
                        amap[ps[1]] = right
                    if stmt is not None:
                        self._apply_summary(m, amap, stmt)
                    return self._map_returns(self.eff.summary(m).returns, amap) or {F}
        return {F}

    def _map_returns(self, rets: Set[Loc], amap: Dict[str, Set[Loc]]) -> Set[Loc]:
        out: Set[Loc] = set()
        for r in rets:
            if r[0] in ("F", "U"):
                out.add(r)
            elif r[0] == "G":
                out.add(r)
            else:
                _, p, d, c = r
                for l in amap.get(p, set()):
                    cur = l
                    for _ in range(d):
                        cur = child(cur)
                    for _ in range(c):
                        cc = capture(cur)
                        cur = cc if cc is not None else F
                    out.add(cur)
        return out

    def _call_alias(self, call: ast.Call, env) -> Set[Loc]:
        f = call.func
        name = dotted(f)
        base = (name or "").split(".")[-1] if name else (f.attr if isinstance(f, ast.Attribute) else "")
        ci = self._ctor_class(call)
        if ci is not None:
            out: Set[Loc] = {F}
            inits = self._ctor_targets(ci)
            if inits:
                for t in inits:
                    amap = self._arg_map(call, t, env, {F})
                    out |= self._map_returns(self.eff.summary(t).ctor_captures, amap)
            elif ci.is_dataclass or ci.fields:
                for a in call.args:
                    out |= captures(self._alias(a, env))
                for kw in call.keywords:
                    out |= captures(self._alias(kw.value, env))
            if ci.is_dataclass and not any(t.name == "__init__" for t in inits):
                for a in call.args:
                    out |= captures(self._alias(a.value if isinstance(a, ast.Starred) else a, env))
                for kw in call.keywords:
                    out |= captures(self._alias(kw.value, env))
            return out
        targets, ext = self._resolve(call)
        recv = self._receiver(call, env)
        if targets and not (ext or "").startswith("cha:"):
            out = set()
            for t in targets:
                if any(d.split(".")[-1] in ("lru_cache", "cache") for d in t.decorators):
                    out.add(("G", f"lru:{t.key}", 0, 0))
                    continue
                bound = recv if (t.cls is not None and isinstance(f, ast.Attribute)) else None
                amap = self._arg_map(call, t, env, bound)
                out |= self._map_returns(self.eff.summary(t).returns, amap)
            return out or {F}
        if isinstance(f, ast.Attribute) and recv is not None:
            rk = self._kind(f.value, env)
            if targets and (ext or "").startswith("cha:") and rk not in INPLACE_KINDS and rk not in IMMUT_KINDS:
                out = set()
                for t in targets:
                    if rk.startswith("obj:") and t.cls is not None and not self._class_compatible(rk[4:], t.cls):
                        continue
                    amap = self._arg_map(call, t, env, recv)
                    out |= self._map_returns(self.eff.summary(t).returns, amap)
                if out:
                    return out
            if f.attr in CHILD_METHODS:
                return children(recv) | {F}
            if f.attr in ("copy",):
                return captures(children(recv))
            if f.attr in FRESH_CALLS:
                return {F}
            if f.attr in VIEW_CALLS:
                return set(recv) | {F}
            return {F}
        if base in CONTAINER_CTORS:
            acc: Set[Loc] = set()
            for a in call.args:
                acc |= children(self._alias(a.value if isinstance(a, ast.Starred) else a, env))
            return captures(acc)
        if base in VIEW_CALLS:
            acc = {F}
            for a in call.args:
                acc |= self._alias(a.value if isinstance(a, ast.Starred) else a, env)
            return acc
        return {F}

    # ------------------------------------------------------------------- kinds
    def _kind(self, e: Optional[ast.AST], env) -> str:
        if e is None:
            return "unknown"
        if isinstance(e, ast.Name):
            return self.kinds.get(e.id, "unknown")
        if isinstance(e, ast.Attribute):
            t = None
            if isinstance(e.value, ast.Name):
                t = self.types.get(e.value.id)
            if t is not None:
                for c in self.repo.mro(t):
                    k = self.eff.attr_kinds.get(c.key, {}).get(e.attr)
                    if k:
                        return k
                m = self.repo.find_method(t, e.attr)
                if m is not None and m.is_property:
                    return self.eff.ann_kind(m.module, m.node.returns)
            return "unknown"
        if isinstance(e, ast.Call):
            ci = self._ctor_class(e)
            if ci is not None:
                return "obj:" + ci.name
            targets, ext = self._resolve(e)
            if targets and not (ext or "").startswith("cha:") and len({t.key for t in targets}) == 1:
                k = self.eff.ann_kind(targets[0].module, targets[0].node.returns)
                if k != "unknown":
                    return k
        return self.eff._expr_kind_simple(e, self.kinds)

    def _type_of(self, e: Optional[ast.AST]) -> Optional[ClassInfo]:
        if isinstance(e, ast.Call):
            ci = self._ctor_class(e)
            if ci is not None:
                return ci
            targets, ext = self._resolve(e)
            if targets and not (ext or "").startswith("cha:") and len({t.key for t in targets}) == 1:
                return self.repo.annotation_class(targets[0].module, targets[0].node.returns)
        if isinstance(e, ast.Name):
            return self.types.get(e.id)
        return None


def _deeper(locs: Iterable[Loc], d: int) -> Set[Loc]:
    out = set()
    for l in locs:
        cur = l
        for _ in range(d):
            cur = child(cur)
        out.add(cur)
    return out


def _inplace_dunder(op) -> str:
    return "__i" + _binop_dunder(op)[2:]


def _binop_dunder(op) -> str:
    table = {
        ast.Add: "__add__", ast.Sub: "__sub__", ast.Mult: "__mul__", ast.Div: "__truediv__", ast.FloorDiv: "__floordiv__",
        ast.Mod: "__mod__", ast.Pow: "__pow__", ast.MatMult: "__matmul__", ast.BitOr: "__or__", ast.BitAnd: "__and__",
        ast.BitXor: "__xor__", ast.LShift: "__lshift__", ast.RShift: "__rshift__",
    }
    return table.get(type(op), "__op__")


def is_value_typed(eff: Effects, fi: FuncInfo, param: str) -> Tuple[bool, str]:
    """Is this parameter (or receiver) possibly one of the value classes of C20?"""
    if fi.cls is not None and param == "self" and not fi.is_static:
        in_scope = fi.cls.name in VALUE_CLASSES or any(c.name in VALUE_CLASSES for c in eff.repo.mro(fi.cls))
        return in_scope, f"receiver {fi.cls.name}"
    a = fi.node.args
    for p in list(a.posonlyargs) + list(a.args) + list(a.kwonlyargs) + ([a.vararg] if a.vararg else []) + ([a.kwarg] if a.kwarg else []):
        if p.arg == param:
            if p.annotation is None:
                return True, "un-annotated parameter"
            text = norm(p.annotation)
            for v in VALUE_CLASSES | VALUE_ALIASES:
                if v in _idents(text):
                    return True, f"annotated {text}"
            return False, f"annotated {text}"
    return False, "not a parameter"


def _idents(text: str) -> Set[str]:
    import re

    return set(re.findall(r"[A-Za-z_][A-Za-z0-9_]*", text))
