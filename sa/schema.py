"""SCHEMA: JSON record shapes extracted from writer and reader functions.

Writer side — an abstract interpretation of one function over *dict shapes*: which string
keys a returned / dumped dictionary has, each tagged unconditional or conditional (set on
some paths only: inside a loop, on one branch of an ``if`` only, or through a
``**({...} if c else {})`` spread), recursively through dict literals, list
comprehensions, ``x[k] = v`` stores, ``x[k].append(v)`` and calls to other repo functions.

Reader side — every ``X["k"]`` / ``X.get("k")`` access on a record variable (parameter or
``json.load`` result), with its key path and whether the read is *required* (a missing key
raises) or *optional* (``.get``, guarded by ``"k" in X`` / a truthy ``X.get("k")`` test,
or inside ``try/except KeyError``), followed through loops, comprehensions and calls to
other reader functions.
"""
from __future__ import annotations

import ast
import copy
from dataclasses import dataclass, field
from typing import Dict, List, Optional, Sequence, Set, Tuple

from .astutil import FUNC_NODES, body_walk, const_str, dotted, norm, positional_params, short, walk_local
from .model import FuncInfo, Repo


# ----------------------------------------------------------------------------- writer
@dataclass
class WDict:
    keys: Dict[str, Tuple[bool, object]] = field(default_factory=dict)  # key -> (conditional, shape)
    depth: int = 0  # loop nesting depth at which this dict was created

    def set(self, k: str, cond: bool, shape: object):
        self.keys[k] = (cond, shape)


@dataclass
class WList:
    elem: object = None


OPAQUE = None


def merge_alt(a: object, b: object) -> object:
    """Shape of a value that is ``a`` on some paths and ``b`` on others."""
    if isinstance(a, WDict) and isinstance(b, WDict):
        out = WDict(depth=min(a.depth, b.depth))
        for k in list(a.keys) + [k for k in b.keys if k not in a.keys]:
            if k in a.keys and k in b.keys:
                ca, sa_ = a.keys[k]
                cb, sb = b.keys[k]
                out.set(k, ca or cb, merge_alt(sa_, sb))
            else:
                c, s = (a.keys.get(k) or b.keys.get(k))
                out.set(k, True, s)
        return out
    if isinstance(a, WList) and isinstance(b, WList):
        return WList(merge_alt(a.elem, b.elem) if a.elem is not None and b.elem is not None else (a.elem or b.elem))
    if a is None:
        return b
    if b is None:
        return a
    return a


class WriterShape:
    def __init__(self, repo: Repo, fi: FuncInfo, depth: int = 0):
        self.repo = repo
        self.fi = fi
        self.depth = depth
        self.result: object = OPAQUE
        self.dumped: object = OPAQUE
        self._have_result = False
        self._have_dump = False
        self._loop_depth = 0
        env: Dict[str, object] = {}
        self._block(fi.node.body, env, False)

    @property
    def shape(self) -> object:
        return self.dumped if self._have_dump else self.result

    # ----------------------------------------------------------- statements
    def _block(self, stmts, env, cond):
        for s in stmts:
            self._stmt(s, env, cond)

    def _stmt(self, s, env, cond):
        if isinstance(s, FUNC_NODES + (ast.ClassDef,)):
            return
        if isinstance(s, ast.If):
            e1 = copy.deepcopy(env)
            e2 = copy.deepcopy(env)
            self._block(s.body, e1, cond)
            self._block(s.orelse, e2, cond)
            for k in set(e1) | set(e2):
                if k in e1 and k in e2:
                    env[k] = merge_alt(e1[k], e2[k])
                else:
                    env[k] = e1.get(k, e2.get(k))
            return
        if isinstance(s, (ast.For, ast.AsyncFor, ast.While)):
            # additions made inside a loop body may happen zero times -> conditional,
            # except appends to a list (a list is allowed to be empty)
            self._loop_depth += 1
            self._block(s.body, env, cond)
            self._loop_depth -= 1
            self._block(s.orelse, env, cond)
            return
        if isinstance(s, (ast.With, ast.AsyncWith)):
            for item in s.items:
                self._scan_dump(item.context_expr, env)
            self._block(s.body, env, cond)
            return
        if isinstance(s, ast.Try):
            self._block(s.body, env, cond)
            for h in s.handlers:
                self._block(h.body, env, True)
            self._block(s.orelse, env, cond)
            self._block(s.finalbody, env, cond)
            return
        if isinstance(s, (ast.Assign, ast.AnnAssign)):
            value = s.value
            if value is None:
                return
            self._scan_dump(value, env)
            targets = s.targets if isinstance(s, ast.Assign) else [s.target]
            shape = self._shape(value, env)
            for t in targets:
                if isinstance(t, ast.Name):
                    env[t.id] = shape
                elif isinstance(t, ast.Subscript):
                    k = const_str(t.slice)
                    holder = self._holder(t.value, env)
                    if k is not None and isinstance(holder, WDict):
                        # a store inside a loop into a dict created outside it may never happen
                        holder.set(k, cond or self._loop_depth > holder.depth, shape)
            return
        if isinstance(s, ast.Expr):
            self._scan_dump(s.value, env)
            v = s.value
            if isinstance(v, ast.Call) and isinstance(v.func, ast.Attribute):
                holder = self._holder(v.func.value, env)
                if v.func.attr == "append" and isinstance(holder, WList) and v.args:
                    sh = self._shape(v.args[0], env)
                    holder.elem = merge_alt(holder.elem, sh) if holder.elem is not None else sh
                elif v.func.attr == "update" and isinstance(holder, WDict) and v.args:
                    sh = self._shape(v.args[0], env)
                    if isinstance(sh, WDict):
                        for k, (c, s2) in sh.keys.items():
                            holder.set(k, c or cond or self._loop_depth > holder.depth, s2)
            return
        if isinstance(s, ast.Return):
            if s.value is not None:
                self._scan_dump(s.value, env)
                sh = self._shape(s.value, env)
                self.result = merge_alt(self.result, sh) if self._have_result else sh
                self._have_result = True
            return

    def _scan_dump(self, expr, env):
        for n in walk_local(expr):
            if isinstance(n, ast.Call):
                name = dotted(n.func) or ""
                if name.split(".")[-1] in ("dumps", "dump") and n.args:
                    sh = self._shape(n.args[0], env)
                    self.dumped = merge_alt(self.dumped, sh) if self._have_dump else sh
                    self._have_dump = True

    def _holder(self, expr, env):
        if isinstance(expr, ast.Name):
            return env.get(expr.id)
        if isinstance(expr, ast.Subscript):
            base = self._holder(expr.value, env)
            k = const_str(expr.slice)
            if isinstance(base, WDict) and k is not None and k in base.keys:
                return base.keys[k][1]
            if isinstance(base, WList):
                return base.elem
        return None

    # -------------------------------------------------------------- shapes
    def _shape(self, e, env) -> object:
        if isinstance(e, ast.Dict):
            d = WDict(depth=self._loop_depth)
            for k, v in zip(e.keys, e.values):
                if k is None:
                    self._spread(d, v, env)
                else:
                    ks = const_str(k)
                    if ks is not None:
                        d.set(ks, False, self._shape(v, env))
            return d
        if isinstance(e, (ast.List, ast.Tuple)):
            if not e.elts:
                return WList(None)
            sh = None
            for x in e.elts:
                s2 = self._shape(x.value if isinstance(x, ast.Starred) else x, env)
                sh = s2 if sh is None else merge_alt(sh, s2)
            return WList(sh)
        if isinstance(e, (ast.ListComp, ast.GeneratorExp)):
            return WList(self._shape(e.elt, env))
        if isinstance(e, ast.Name):
            return env.get(e.id)
        if isinstance(e, ast.IfExp):
            return merge_alt(self._shape(e.body, env), self._shape(e.orelse, env))
        if isinstance(e, ast.Subscript):
            return self._holder(e, env)
        if isinstance(e, ast.Call):
            name = dotted(e.func) or ""
            base = name.split(".")[-1]
            if base in ("dict", "copy", "deepcopy", "cast") and e.args:
                return self._shape(e.args[-1] if base == "cast" else e.args[0], env)
            if base in ("list", "tuple") and e.args:
                return self._shape(e.args[0], env)
            if base == "_map_eager" and len(e.args) == 2:
                fn = e.args[0]
                r = self.repo.resolve_dotted(self.fi.module, fn) if isinstance(fn, (ast.Name, ast.Attribute)) else None
                if r is not None and r[0] == "func" and not self.repo.is_singledispatch(r[1]) and self.depth < 3:
                    return WList(WriterShape(self.repo, r[1], self.depth + 1).shape)
                return WList(None)
            targets, ext = self.repo.resolve_call(self.fi, e)
            if targets and not (ext or "").startswith("cha:") and len(targets) == 1 and self.depth < 3:
                t = targets[0]
                if not self.repo.is_singledispatch(t):
                    return WriterShape(self.repo, t, self.depth + 1).shape
            return OPAQUE
        return OPAQUE

    def _spread(self, d: WDict, v, env):
        """``**v`` inside a dict literal."""
        if isinstance(v, ast.IfExp):
            body, orelse = self._shape(v.body, env), self._shape(v.orelse, env)
            merged = merge_alt(body if isinstance(body, WDict) else WDict(), orelse if isinstance(orelse, WDict) else WDict())
            for k, (c, s) in merged.keys.items():
                d.set(k, c, s)
            return
        sh = self._shape(v, env)
        if isinstance(sh, WDict):
            for k, (c, s) in sh.keys.items():
                d.set(k, c, s)


def writer_shape(repo: Repo, fi: FuncInfo) -> object:
    return WriterShape(repo, fi).shape


def shape_keys(shape: object, prefix: Tuple[str, ...] = ()) -> List[Tuple[Tuple[str, ...], bool]]:
    """All (path, conditional) key paths of a shape."""
    out: List[Tuple[Tuple[str, ...], bool]] = []
    if isinstance(shape, WDict):
        for k, (c, s) in shape.keys.items():
            out.append((prefix + (k,), c))
            out.extend(shape_keys(s, prefix + (k,)))
    elif isinstance(shape, WList):
        out.extend(shape_keys(shape.elem, prefix + ("*",)))
    return out


# ----------------------------------------------------------------------------- reader
@dataclass(frozen=True)
class Access:
    path: Tuple[str, ...]
    required: bool
    where: str
    text: str
    gated_by: Tuple[Tuple[str, ...], ...] = ()  # sibling keys whose presence this read is conditional on


class ReaderAccesses:
    """Accesses made through the record rooted at parameter ``root`` (or, if ``root`` is
    None, at the result of ``json.load``)."""

    def __init__(self, repo: Repo, fi: FuncInfo, root: Optional[str], depth: int = 0, restrict: Optional[Sequence[ast.AST]] = None):
        self.repo = repo
        self.fi = fi
        self.depth = depth
        self.accesses: List[Access] = []
        self.env: Dict[str, Tuple[str, ...]] = {}
        if root is not None:
            self.env[root] = ()
        self.root = root
        self._optional_ctx: List[Tuple[Tuple[str, ...], str]] = []
        self._try_depth = 0
        body = list(restrict) if restrict is not None else fi.node.body
        self._block(body)

    # -------------------------------------------------------------- paths
    def path(self, e) -> Optional[Tuple[str, ...]]:
        if isinstance(e, ast.Name):
            return self.env.get(e.id)
        if isinstance(e, ast.Subscript):
            base = self.path(e.value)
            if base is None:
                return None
            k = const_str(e.slice)
            return base + ((k,) if k is not None else ("*",))
        if isinstance(e, ast.Call):
            name = dotted(e.func) or ""
            if isinstance(e.func, ast.Attribute) and e.func.attr == "get" and e.args:
                base = self.path(e.func.value)
                k = const_str(e.args[0])
                if base is not None and k is not None:
                    return base + (k,)
            if isinstance(e.func, ast.Attribute) and e.func.attr in ("items", "values", "keys", "copy"):
                return None
            if name.split(".")[-1] in ("cast",) and len(e.args) == 2:
                return self.path(e.args[1])
            if name.split(".")[-1] in ("load", "loads") and self.root is None:
                return ()
            if name.split(".")[-1] in ("list", "tuple", "iter", "enumerate", "reversed") and e.args:
                return self.path(e.args[0])
        return None

    # ----------------------------------------------------------- traversal
    def _block(self, stmts):
        for s in stmts:
            self._stmt(s)

    def _guards(self, test) -> List[Tuple[Tuple[str, ...], str]]:
        """(path, key) pairs known present when ``test`` is true."""
        out = []
        for n in walk_local(test):
            if isinstance(n, ast.Compare) and len(n.ops) == 1 and isinstance(n.ops[0], ast.In):
                k = const_str(n.left)
                p = self.path(n.comparators[0])
                if k is not None and p is not None:
                    out.append((p, k))
            elif isinstance(n, ast.Call) and isinstance(n.func, ast.Attribute) and n.func.attr == "get" and n.args:
                k = const_str(n.args[0])
                p = self.path(n.func.value)
                if k is not None and p is not None:
                    out.append((p, k))
        return out

    def _stmt(self, s):
        if isinstance(s, FUNC_NODES + (ast.ClassDef,)):
            return
        if isinstance(s, ast.If):
            self._expr(s.test)
            negated = isinstance(s.test, ast.UnaryOp) and isinstance(s.test.op, ast.Not)
            g = self._guards(s.test)
            self._optional_ctx.extend(g if not negated else [])
            self._block(s.body)
            if not negated:
                del self._optional_ctx[len(self._optional_ctx) - len(g):]
            else:
                self._optional_ctx.extend(g)
            self._block(s.orelse)
            if negated:
                del self._optional_ctx[len(self._optional_ctx) - len(g):]
            return
        if isinstance(s, (ast.For, ast.AsyncFor)):
            self._expr(s.iter)
            self._bind_iter(s.target, s.iter)
            self._block(s.body)
            self._block(s.orelse)
            return
        if isinstance(s, ast.While):
            self._expr(s.test)
            self._block(s.body)
            return
        if isinstance(s, (ast.With, ast.AsyncWith)):
            for item in s.items:
                self._expr(item.context_expr)
            self._block(s.body)
            return
        if isinstance(s, ast.Try):
            catches = any(h.type is None or any(x in norm(h.type) for x in ("KeyError", "Exception", "LookupError")) for h in s.handlers)
            if catches:
                self._try_depth += 1
            self._block(s.body)
            if catches:
                self._try_depth -= 1
            for h in s.handlers:
                self._block(h.body)
            self._block(s.orelse)
            self._block(s.finalbody)
            return
        if isinstance(s, (ast.Assign, ast.AnnAssign)):
            if s.value is None:
                return
            self._expr(s.value)
            p = self.path(s.value)
            targets = s.targets if isinstance(s, ast.Assign) else [s.target]
            for t in targets:
                if isinstance(t, ast.Name):
                    if p is not None:
                        self.env[t.id] = p
                    else:
                        self.env.pop(t.id, None)
            return
        for sub in ast.iter_child_nodes(s):
            if isinstance(sub, ast.expr):
                self._expr(sub)

    def _bind_iter(self, target, it):
        p = self.path(it)
        if p is None:
            # ``for i in range(len(X["k"]))`` keeps the env untouched
            return
        if isinstance(target, ast.Name):
            self.env[target.id] = p + ("*",)

    def _is_optional(self, base: Tuple[str, ...], key: str) -> bool:
        if self._try_depth > 0:
            return True
        return (base, key) in self._optional_ctx

    def _record(self, path, required, node):
        gated = tuple(sorted({b + (k,) for b, k in self._optional_ctx if path[: len(b) + 1] != b + (k,)}))
        self.accesses.append(Access(path, required, f"{self.fi.module.relpath}:{getattr(node, 'lineno', 0)}", short(node, 80), gated))

    def _expr(self, e):
        # comprehension bindings first
        for n in walk_local(e):
            if isinstance(n, (ast.ListComp, ast.SetComp, ast.GeneratorExp, ast.DictComp)):
                for g in n.generators:
                    self._bind_iter(g.target, g.iter)
        self._visit(e)

    def _visit(self, n):
        if isinstance(n, ast.BoolOp) and isinstance(n.op, ast.And):
            # ``"k" in X and X["k"]``: later conjuncts are evaluated only if the earlier ones held
            pushed = 0
            for v in n.values:
                self._visit(v)
                if not (isinstance(v, ast.UnaryOp) and isinstance(v.op, ast.Not)):
                    g = self._guards(v)
                    self._optional_ctx.extend(g)
                    pushed += len(g)
            if pushed:
                del self._optional_ctx[len(self._optional_ctx) - pushed:]
            return
        if isinstance(n, ast.IfExp):
            self._visit(n.test)
            negated = isinstance(n.test, ast.UnaryOp) and isinstance(n.test.op, ast.Not)
            g = self._guards(n.test)
            if not negated:
                self._optional_ctx.extend(g)
                self._visit(n.body)
                del self._optional_ctx[len(self._optional_ctx) - len(g):]
                self._visit(n.orelse)
            else:
                self._visit(n.body)
                self._optional_ctx.extend(g)
                self._visit(n.orelse)
                del self._optional_ctx[len(self._optional_ctx) - len(g):]
            return
        if isinstance(n, ast.Subscript):
            base = self.path(n.value)
            k = const_str(n.slice)
            if base is not None and k is not None:
                self._record(base + (k,), not self._is_optional(base, k), n)
        elif isinstance(n, ast.Call):
            if isinstance(n.func, ast.Attribute) and n.func.attr == "get" and n.args:
                base = self.path(n.func.value)
                k = const_str(n.args[0])
                if base is not None and k is not None:
                    self._record(base + (k,), False, n)
            else:
                self._follow_call(n)
        elif isinstance(n, (ast.FunctionDef, ast.AsyncFunctionDef, ast.ClassDef, ast.Lambda)):
            return
        for child in ast.iter_child_nodes(n):
            self._visit(child)

    def _follow_call(self, call: ast.Call):
        if self.depth >= 3:
            return
        arg_paths = [(i, self.path(a)) for i, a in enumerate(call.args) if not isinstance(a, ast.Starred)]
        arg_paths = [(i, p) for i, p in arg_paths if p is not None]
        # ``_map_eager(fn, X["k"])`` / ``map(fn, X["k"])``: fn reads each element
        name = dotted(call.func) or ""
        if name.split(".")[-1] in ("_map_eager", "map") and len(call.args) == 2:
            p = self.path(call.args[1])
            fn = call.args[0]
            r = self.repo.resolve_dotted(self.fi.module, fn) if isinstance(fn, (ast.Name, ast.Attribute)) else None
            if p is not None and r is not None and r[0] == "func":
                self._inline(r[1], 0, p + ("*",), bound=False)
            return
        if not arg_paths:
            return
        f = call.func
        targets: List[FuncInfo] = []
        bound = False
        if isinstance(f, ast.Name) and f.id == "cls" and self.fi.cls is not None:
            init = self.repo.find_method(self.fi.cls, "__init__")
            return
        r = self.repo.resolve_dotted(self.fi.module, f) if isinstance(f, (ast.Name, ast.Attribute)) else None
        if r is not None and r[0] == "func":
            targets = [r[1]]
            bound = r[1].cls is not None and not r[1].is_static
        elif isinstance(f, ast.Attribute) and isinstance(f.value, ast.Name) and f.value.id == "cls" and self.fi.cls is not None:
            m = self.repo.find_method(self.fi.cls, f.attr)
            if m is not None:
                targets = [m]
                bound = True
        for t in targets:
            if self.repo.is_singledispatch(t):
                continue
            for i, p in arg_paths:
                self._inline(t, i, p, bound)

    def _inline(self, target: FuncInfo, arg_index: int, path: Tuple[str, ...], bound: bool):
        ps = positional_params(target.node)
        idx = arg_index + (1 if bound else 0)
        if idx >= len(ps):
            return
        sub = ReaderAccesses(self.repo, target, ps[idx], self.depth + 1)
        opt = self._try_depth > 0
        outer = tuple(sorted({b + (k,) for b, k in self._optional_ctx if path[: len(b) + 1] != b + (k,)}))
        for a in sub.accesses:
            self.accesses.append(Access(path + a.path, a.required and not opt, a.where, a.text, outer + tuple(path + g for g in a.gated_by)))


def compare(writer: object, accesses: List[Access], allow_unread: Dict[Tuple[str, ...], str], allow_unwritten: Optional[Dict[Tuple[str, ...], str]] = None, allow_gated: Optional[Dict[Tuple[str, ...], str]] = None):
    """Rules A, B and C. Returns (problems, checked) where problems are
    (kind, path, detail, where) tuples."""
    allow_unwritten = allow_unwritten or {}
    problems = []
    checked = []
    read_paths = {a.path for a in accesses}
    # Rule A: required reads are written unconditionally (at each level they reach)
    for a in accesses:
        shape = writer
        ok = True
        for i, k in enumerate(a.path):
            if k == "*":
                if isinstance(shape, WList):
                    shape = shape.elem
                    continue
                shape = None
                break
            if not isinstance(shape, WDict):
                shape = None
                break
            if k not in shape.keys:
                if a.required and i == len(a.path) - 1:
                    problems.append(("A-missing", a.path, f"reader requires key {'/'.join(a.path)} ({a.text}) which the writer never writes", a.where))
                elif i == len(a.path) - 1 and a.path not in allow_unwritten and not any(p[1] == a.path for p in problems):
                    # Rule C: an optional read of a key no writer path produces: that part of the
                    # object is never stored, so it cannot come back
                    problems.append(("C-never-written", a.path, f"reader looks for optional key {'/'.join(a.path)} ({a.text}) but the writer never writes it: that part of the object is not persisted at all", a.where))
                ok = False
                shape = None
                break
            cond, sub = shape.keys[k]
            if i == len(a.path) - 1 and cond and a.required:
                problems.append(("A-conditional", a.path, f"reader requires key {'/'.join(a.path)} ({a.text}) but the writer writes it only conditionally: loading what was saved raises KeyError", a.where))
                ok = False
            shape = sub
        checked.append(("A", a.path, a.required))
    # Rule D: a key is read only when a *different* key is present, although the writer can emit
    # the first without the second: that part of the record silently does not come back
    def cond_of(path):
        shape = writer
        cond_any = False
        for k in path:
            if k == "*":
                if isinstance(shape, WList):
                    shape = shape.elem
                    continue
                return None
            if not isinstance(shape, WDict) or k not in shape.keys:
                return None
            c, shape = shape.keys[k]
            cond_any = cond_any or c
        return cond_any

    gated_ok = set()
    gated_bad = {}
    for a in accesses:
        for g in a.gated_by:
            if cond_of(g) and cond_of(a.path) is not None:
                gated_bad.setdefault(a.path, (g, a))
    for path, (g, a) in gated_bad.items():
        if allow_gated and path in allow_gated:
            continue
        # harmless if the same key is also read somewhere without that gate
        if any(b.path == path and g not in b.gated_by for b in accesses):
            continue
        problems.append(("D-gated-by-sibling", path, f"key {'/'.join(path)} is read ({a.text}) only when the unrelated key {'/'.join(g)} is present, but the writer emits {'/'.join(g)} only conditionally: a record saved with {'/'.join(path)} and without {'/'.join(g)} loses that part on load", a.where))
    # Rule B: every key the writer can emit is consumed by the reader
    for path, cond in shape_keys(writer):
        if path in read_paths:
            checked.append(("B", path, cond))
            continue
        if path in allow_unread:
            checked.append(("B-allowed", path, cond))
            continue
        # only complain when the reader descends to this level at all (parent read or root)
        parent = path[:-1]
        while parent and parent[-1] == "*":
            parent = parent[:-1]
        if parent == () or parent in read_paths or any(p[: len(parent)] == parent for p in read_paths):
            problems.append(("B-unread", path, f"writer emits key {'/'.join(path)} which the reader never consumes: that part of the record is lost on load", ""))
    return problems, checked
