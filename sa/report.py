"""Obligations, verdicts, evidence files, known findings and exit codes."""
from __future__ import annotations

import json
import os
import sys
import time
from dataclasses import dataclass, field, asdict
from typing import Any, Dict, List, Optional

VERIF_DIR = os.path.dirname(os.path.dirname(os.path.abspath(__file__)))
EVIDENCE_DIR = os.path.join(VERIF_DIR, "evidence")
REPLAY_DIR = os.path.join(EVIDENCE_DIR, "replay")
KNOWN_FINDINGS = os.path.join(VERIF_DIR, "known_findings.json")

OK, VIOLATION, UNDECIDED, INFO = "ok", "violation", "undecided", "info"


@dataclass
class Obligation:
    rule: str  # e.g. "C01-D2 product-order-parity"
    construct: str  # stable key: "module:qualname[:detail]"
    status: str
    detail: str
    where: str = ""  # file:line (convenience only; never part of the key)

    @property
    def key(self) -> str:
        return f"{self.rule.split(' ')[0]}|{self.construct}"


class Ctx:
    """Collects the obligations of one property check."""

    def __init__(self, prop: str, repo, tier: str = "quick"):
        self.prop = prop
        self.repo = repo
        self.tier = tier
        self.obligations: List[Obligation] = []
        self.floors: Dict[str, int] = {}
        self.functions_analysed: set = set()
        self.notes: List[str] = []
        self.externals: set = set()
        self.extra: Dict[str, Any] = {}

    # -- recording
    def _add(self, status, rule, construct, detail, where):
        if hasattr(where, "where"):
            where = where.where
        self.obligations.append(Obligation(rule, construct, status, detail, where or ""))

    def ok(self, rule, construct, detail="", where=""):
        self._add(OK, rule, construct, detail, where)

    def violation(self, rule, construct, detail, where=""):
        self._add(VIOLATION, rule, construct, detail, where)

    def undecided(self, rule, construct, detail, where=""):
        self._add(UNDECIDED, rule, construct, detail, where)

    def info(self, rule, construct, detail, where=""):
        self._add(INFO, rule, construct, detail, where)

    def check(self, cond: bool, rule, construct, ok_detail, bad_detail, where=""):
        if cond:
            self.ok(rule, construct, ok_detail, where)
        else:
            self.violation(rule, construct, bad_detail, where)
        return cond

    def floor(self, rule_prefix: str, minimum: int):
        """Vacuity guard: at least ``minimum`` decided instances must match rule_prefix."""
        self.floors[rule_prefix] = minimum

    def analysed(self, *funcs):
        for f in funcs:
            self.functions_analysed.add(getattr(f, "key", str(f)))

    def note(self, text: str):
        self.notes.append(text)


def load_known() -> Dict[str, Any]:
    if not os.path.exists(KNOWN_FINDINGS):
        return {"known": [], "fixed": []}
    with open(KNOWN_FINDINGS) as f:
        return json.load(f)


def finish(ctx: Ctx, started: float, explanation: str, rule_text: str, assumptions: List[str], exhaustive: bool = True) -> int:
    """Write evidence, print verdict lines, return the exit code."""
    # evidence under /verif/evidence is only ever written for /repo itself; runs against scratch
    # copies (pinned-tree cross-checks, seeded variants) go to a throw-away directory
    evidence_dir = EVIDENCE_DIR if ctx.repo.root == "/repo" else os.environ.get("SA_EVIDENCE_DIR", "/tmp/sa-evidence" + ctx.repo.root.replace("/", "_"))
    replay_dir = os.path.join(evidence_dir, "replay")
    os.makedirs(evidence_dir, exist_ok=True)
    known = load_known()
    known_keys = {
        (k["property"], k["key"]): k for k in known.get("known", [])
    }

    decided = [o for o in ctx.obligations if o.status in (OK, VIOLATION)]
    violations = [o for o in ctx.obligations if o.status == VIOLATION]
    undecided = [o for o in ctx.obligations if o.status == UNDECIDED]

    # vacuity floors
    floor_errors = []
    for prefix, minimum in ctx.floors.items():
        n = sum(1 for o in decided if o.rule.startswith(prefix))
        if n < minimum:
            floor_errors.append(f"rule {prefix}: matched {n} instances, frozen minimum is {minimum}")

    new_violations = []
    known_hits = []
    for o in violations:
        if (ctx.prop, o.key) in known_keys:
            known_hits.append(o)
        else:
            new_violations.append(o)

    # replay files for new violations
    replay_paths = []
    if new_violations:
        os.makedirs(replay_dir, exist_ok=True)
    for i, o in enumerate(new_violations):
        path = os.path.join(replay_dir, f"{ctx.prop}-{i}.json")
        with open(path, "w") as f:
            json.dump(
                {
                    "property": ctx.prop,
                    "rule": o.rule,
                    "construct": o.construct,
                    "key": o.key,
                    "where": o.where,
                    "detail": o.detail,
                    "repo": ctx.repo.root,
                    "replay": f"/venv/bin/python -m sa.check {ctx.prop} --repo {ctx.repo.root} --only '{o.rule.split(' ')[0]}'",
                },
                f,
                indent=1,
            )
        replay_paths.append(path)

    distinct = len({o.key for o in decided})
    samples = []
    seen_rules = set()
    for o in ctx.obligations:
        r = o.rule.split(" ")[0]
        if r in seen_rules and o.status == OK:
            continue
        seen_rules.add(r)
        samples.append({"rule": o.rule, "construct": o.construct, "status": o.status, "where": o.where, "detail": o.detail[:300]})
    samples = samples[:80]

    per_rule: Dict[str, Dict[str, int]] = {}
    for o in ctx.obligations:
        r = o.rule.split(" ")[0]
        per_rule.setdefault(r, {}).setdefault(o.status, 0)
        per_rule[r][o.status] += 1

    evidence = {
        "property_id": ctx.prop,
        "tier": ctx.tier,
        "seed": int(os.environ.get("VERIF_SEED", "0") or 0),
        "level": "other",
        "coverage": {
            "explanation": explanation,
            "obligations": len(decided) + len(undecided),
            "discharged": len(decided) - len(violations),
            "evaluations": max(1, len(decided)),
            "distinct_nontrivial": distinct,
            "rule": rule_text,
            "samples": samples,
            "exhaustive": exhaustive and not undecided,
            "functions_analysed": sorted(ctx.functions_analysed),
            "functions_analysed_count": len(ctx.functions_analysed),
            "modules_parsed": len(ctx.repo.modules),
            "per_rule": per_rule,
            "floors": ctx.floors,
            "undecided": [asdict(o) for o in undecided],
            "informational": [asdict(o) for o in ctx.obligations if o.status == INFO][:60],
            "externals_assumed_pure": sorted(ctx.externals)[:200],
            "known_findings_hit": [o.key for o in known_hits],
            "notes": sorted(set(ctx.notes)),
            **ctx.extra,
        },
        "assumptions": assumptions,
        "wall_s": round(time.time() - started, 3),
        "violations": len(new_violations),
    }
    with open(os.path.join(evidence_dir, f"{ctx.prop}.json"), "w") as f:
        json.dump(evidence, f, indent=1, default=str)

    # ---- console
    print(f"[{ctx.prop}] repo={ctx.repo.root} tier={ctx.tier} modules={len(ctx.repo.modules)} functions_analysed={len(ctx.functions_analysed)}")
    for r in sorted(per_rule):
        counts = " ".join(f"{k}={v}" for k, v in sorted(per_rule[r].items()))
        print(f"  rule {r}: {counts}")
    for o in known_hits:
        entry = known_keys[(ctx.prop, o.key)]
        print(f"KNOWN-FINDING: property={ctx.prop} {entry.get('what', o.detail)} [{o.key}]")
    for o, path in zip(new_violations, replay_paths):
        print(f"  violation: {o.where} {o.rule} :: {o.construct} :: {o.detail}")
        print(f"VIOLATION property={ctx.prop} replay={path}")
    for o in undecided:
        print(f"ANALYSIS-ERROR property={ctx.prop} {o.where} {o.rule} :: {o.construct} :: {o.detail}")
    for e in floor_errors:
        print(f"ANALYSIS-ERROR property={ctx.prop} vacuity: {e}")
    if new_violations:
        return 1
    if undecided or floor_errors:
        return 2
    print(f"[{ctx.prop}] PASS: {len(decided) - len(violations)}/{len(decided)} obligations discharged"
          + (f", {len(known_hits)} known finding(s)" if known_hits else ""))
    return 0
