"""ORIENT: orientation parity of sequences.

Every construct that maps a sequence to a sequence is either order-preserving (parity 0)
or order-reversing (parity 1). ``seq_parity`` follows the dataflow of a sequence-valued
expression back to a *source* expression and adds up the flips on the way; anything it
does not recognise makes the result None ("undecided"), never a guess.
"""
from __future__ import annotations

import ast
from typing import Callable, List, Optional, Tuple

from .astutil import body_walk, dotted, is_const, kwarg, norm, walk_local
from .flow import Defs, ElementOf

PRESERVING_CALLS = {"list", "tuple", "iter", "enumerate", "map", "filter", "zip", "deque", "asarray", "array"}


def is_reverse_slice(node: ast.AST) -> bool:
    """``x[::-1]``"""
    if not isinstance(node, ast.Subscript):
        return False
    s = node.slice
    return (
        isinstance(s, ast.Slice)
        and s.lower is None
        and s.upper is None
        and s.step is not None
        and is_const(s.step)
        and _cv(s.step) == -1
    )


def _cv(n):
    from .astutil import const_value

    try:
        return const_value(n)
    except ValueError:
        return None


def count_reversals(expr: ast.AST) -> int:
    """Number of reversal constructs syntactically inside expr (no dataflow)."""
    n = 0
    for x in walk_local(expr):
        if is_reverse_slice(x):
            n += 1
        elif isinstance(x, ast.Call):
            name = (dotted(x.func) or "").split(".")[-1]
            if name in ("reversed", "flip", "flipud", "fliplr"):
                n += 1
            elif name == "sorted" or name == "sort":
                rv = kwarg(x, "reverse")
                if rv is not None and _cv(rv) is True:
                    n += 1
            elif name == "reverse" and isinstance(x.func, ast.Attribute) and not x.args:
                n += 1
    return n


class Orient:
    def __init__(self, func: ast.AST, is_source: Callable[[ast.AST], bool]):
        self.func = func
        self.defs = Defs(func)
        self.is_source = is_source
        self.trace: List[str] = []

    def parity(self, expr: ast.AST, depth: int = 0) -> Optional[int]:
        """Parity of flips from the source sequence to ``expr``; None if undecided."""
        if depth > 12:
            return None
        if self.is_source(expr):
            self.trace.append(f"source {norm(expr)}")
            return 0
        if is_reverse_slice(expr):
            p = self.parity(expr.value, depth + 1)
            self.trace.append("flip [::-1]")
            return None if p is None else p ^ 1
        if isinstance(expr, ast.Subscript) and isinstance(expr.slice, ast.Slice) and expr.slice.step is None:
            return self.parity(expr.value, depth + 1)
        if isinstance(expr, ast.Call):
            name = (dotted(expr.func) or "").split(".")[-1]
            if name == "reversed" and len(expr.args) == 1:
                p = self.parity(expr.args[0], depth + 1)
                self.trace.append("flip reversed()")
                return None if p is None else p ^ 1
            if name in PRESERVING_CALLS and expr.args:
                # map(f, xs): sequence is the last positional argument; others: the first
                arg = expr.args[-1] if name in ("map", "filter") else expr.args[0]
                return self.parity(arg, depth + 1)
            if name == "sorted":
                return None  # re-ordering, not a reversal of the source order
            return None
        if isinstance(expr, (ast.ListComp, ast.GeneratorExp)):
            if len(expr.generators) != 1:
                return None
            return self.parity(expr.generators[0].iter, depth + 1)
        if isinstance(expr, ast.Starred):
            return self.parity(expr.value, depth + 1)
        if isinstance(expr, ast.Name):
            return self._name_parity(expr.id, depth)
        return None

    def _name_parity(self, name: str, depth: int) -> Optional[int]:
        defs = self.defs.defs.get(name, [])
        stmts = self.defs.assign_stmts.get(name, [])
        if not defs:
            return None
        # accumulator list: ``v = []`` then appended inside exactly one loop
        inits = [d for d in defs if isinstance(d, (ast.List, ast.Tuple)) and not d.elts]
        others = [d for d in defs if d not in inits]
        growth = self._growth_sites(name)
        if inits and growth is not None:
            loop_iter, flip = growth
            p = self.parity(loop_iter, depth + 1)
            if flip:
                self.trace.append(f"flip prepend into {name}")
            else:
                self.trace.append(f"append into {name}")
            return None if p is None else p ^ flip
        if len(defs) == 1 and isinstance(defs[0], ast.AST):
            return self.parity(defs[0], depth + 1)
        return None

    def _growth_sites(self, name: str) -> Optional[Tuple[ast.AST, int]]:
        """(loop iterable, flip) if ``name`` is grown element-wise in a single for loop."""
        sites: List[Tuple[ast.AST, int]] = []
        for loop in body_walk(self.func):
            if not isinstance(loop, (ast.For, ast.AsyncFor)):
                continue
            for n in ast.walk(loop):
                if n is loop:
                    continue
                flip = None
                if isinstance(n, ast.AugAssign) and isinstance(n.target, ast.Name) and n.target.id == name and isinstance(n.op, ast.Add):
                    flip = 0
                elif isinstance(n, ast.Call) and isinstance(n.func, ast.Attribute) and isinstance(n.func.value, ast.Name) and n.func.value.id == name:
                    if n.func.attr in ("append", "extend"):
                        flip = 0
                    elif n.func.attr == "insert" and n.args and _cv(n.args[0]) == 0:
                        flip = 1
                    elif n.func.attr == "appendleft":
                        flip = 1
                elif isinstance(n, ast.Assign) and len(n.targets) == 1 and isinstance(n.targets[0], ast.Name) and n.targets[0].id == name and isinstance(n.value, ast.BinOp) and isinstance(n.value.op, ast.Add):
                    l, r = n.value.left, n.value.right
                    if isinstance(l, ast.Name) and l.id == name:
                        flip = 0
                    elif isinstance(r, ast.Name) and r.id == name:
                        flip = 1
                if flip is not None:
                    # innermost enclosing loop of the growth site decides the order
                    inner = _innermost_loop(self.func, n)
                    sites.append((inner.iter if inner is not None else loop.iter, flip))
        uniq = {(norm(i), f) for i, f in sites}
        if len(uniq) == 1:
            return sites[0]
        return None


def _innermost_loop(func: ast.AST, node: ast.AST) -> Optional[ast.For]:
    best = None
    for loop in body_walk(func):
        if isinstance(loop, (ast.For, ast.AsyncFor)):
            for n in ast.walk(loop):
                if n is node:
                    if best is None or any(x is loop for x in ast.walk(best)):
                        best = loop
    return best


def fold_direction(func: ast.AST, fold: ast.AST) -> Optional[int]:
    """For a matrix-product fold over a sequence: 0 if element 0 ends up as the *leftmost*
    factor, 1 if it ends up rightmost, None if not a recognised fold.

    ``reduce(operator.matmul, xs)`` / ``reduce(np.matmul|np.dot, xs)`` / ``reduce(lambda a,
    b: a @ b, xs)`` -> 0; lambda with swapped operands -> 1."""
    if isinstance(fold, ast.Call) and (dotted(fold.func) or "").split(".")[-1] == "reduce" and len(fold.args) >= 2:
        f = fold.args[0]
        name = dotted(f)
        if name is not None and name.split(".")[-1] in ("matmul", "dot", "mul", "__matmul__"):
            return 0
        if isinstance(f, ast.Lambda) and len(f.args.args) == 2 and isinstance(f.body, ast.BinOp) and isinstance(f.body.op, (ast.MatMult, ast.Mult)):
            a, b = f.args.args[0].arg, f.args.args[1].arg
            l, r = f.body.left, f.body.right
            if isinstance(l, ast.Name) and isinstance(r, ast.Name):
                if (l.id, r.id) == (a, b):
                    return 0
                if (l.id, r.id) == (b, a):
                    return 1
        return None
    return None
